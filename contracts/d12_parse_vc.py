"""Deductive part of C12, second half: the run-length list DESCRIBES THE FILE (pyvc on the AST of the real functions).

SystemGro._parse_gro -- for a file of ANY number N >= 1 of atom records with ANY residue numbers / names: the residues handed to
`_add_residue_init` tile the records 0..N-1 in file order, every one is non-empty, a new one starts PRECISELY where the residue
number or the residue name changes (every start is a change point; there is no change point strictly inside a residue).
`Residue(...)` by contract (requires: non-empty, all atoms share residue number and name -- the real constructor raises
otherwise), `AtomGro(line)` by contract (exposes the record's resid / resname), the coordinate file as a cursor over records
(`next` consumes one, `for` continues behind it).

SystemGro._add_residue_init -- against the class invariant of the run-length structure, for ANY history:
  Inv:  `_molecules_ordered` is a flat list [kind, amount, kind, amount, ...] of even length, every kind indexes a template,
        every amount >= 1, consecutive runs have different kinds is NOT required; every key (resname, size) of `_molecules_pk`
        points at a template of that name and size, every template's key is present; and (ghost) the residues registered so far,
        in order, have the sizes the run-length list expands to: residue q of run r has size len(template[kind_r]).
  post: Inv again with exactly one more residue, of the size of the registered one, at the end; templates only appended to.
Together with d12_offsets_vc (generator tiles from 0 using len(template[kind]) per run) this closes the chain
file records -> residues -> run-length list -> yielded (start, length) triples.
"""
from __future__ import annotations

import z3

from vf import symrun as S, core, pyvc, seq
from vf.core import ob, discharge
from vf.pyvc import LoopSpec, Stub

I = z3.IntSort()
N = z3.Int("n_atom_records")
Rid = z3.Function("record_resid", I, I)
Rnm = z3.Function("record_resname", I, I)


def _t(v):
    return v if isinstance(v, z3.ExprRef) else seq.SymDict._key(v)


def change_point(q):
    """record q starts a new residue: it is the first record, or its residue number or name differs from the previous record's"""
    return z3.Or(q == 0, Rid(q) != Rid(q - 1), Rnm(q) != Rnm(q - 1))


class AtomM:
    def __init__(self, idx):
        self.idx = idx

    @property
    def resid(self):
        return S.SymReal(Rid(self.idx))

    @property
    def resname(self):
        return S.SymReal(Rnm(self.idx))

    def pyvc_copy(self):
        return self


class LineM:
    def __init__(self, idx):
        self.idx = idx

    def pyvc_copy(self):
        return self


class FileCursor:
    """the open coordinate file seen from a state: records cursor..N-1 are still to be delivered"""

    def __init__(self, cursor):
        self.cursor = cursor

    def pyvc_iter(self):
        c = self.cursor
        return N - c, (lambda k: LineM(c + k))

    def pyvc_copy(self):
        return self


class RunList:
    """a list of atom objects known to be the consecutive records start..start+length-1"""

    def __init__(self, start, length):
        self.start, self.length = start, length

    def pyvc_copy(self):
        return RunList(self.start, self.length)

    def pyvc_getattr(self, attr, interp, st):
        if attr == "append":
            def app(interp_, st_, args, kw, node):
                a = args[0]
                if not isinstance(a, AtomM):
                    raise pyvc.PyvcUnsupported("append of something that is not an atom model")
                interp_.oblige(st_, "ghost.appended_atom_is_the_next_record", a.idx == self.start + self.length)
                self.length = self.length + 1
                return None
            return Stub("append", app)
        raise pyvc.PyvcUnsupported(f"list method .{attr} has no model")

    def pyvc_getitem(self, i, interp, st):
        it = _t(i) if not isinstance(i, int) else z3.IntVal(i)
        interp.oblige(st, "safety.index-in-range[current_residue]", z3.And(it >= -self.length, it < self.length))
        return AtomM(z3.If(it >= 0, self.start + it, self.start + self.length + it))

    def pyvc_len(self):
        return S.SymReal(self.length)


def norm(v):
    """(start, length, contiguity condition) of a list of atoms"""
    if isinstance(v, RunList):
        return v.start, v.length, z3.BoolVal(True)
    if isinstance(v, list) and v and all(isinstance(a, AtomM) for a in v):
        s0 = v[0].idx
        return s0, z3.IntVal(len(v)), z3.And(*[a.idx == s0 + j for j, a in enumerate(v)])
    raise pyvc.PyvcUnsupported(f"the sidecar has no model for this list of atoms ({type(v).__name__})")


def _calls():
    return seq.SymList("__registered__", [I, I], lambda c: tuple(c), lambda x: [_t(v) for v in x])


def tiles(c: seq.SymList, upto):
    r, q = z3.Int("r!t"), z3.Int("q!t")
    cs, cl = c.arrays
    m = c.length
    return z3.And(
        m >= 0,
        z3.Implies(m == 0, upto == 0),
        z3.Implies(m > 0, z3.And(z3.Select(cs, 0) == 0, z3.Select(cs, m - 1) + z3.Select(cl, m - 1) == upto)),
        z3.ForAll([r], z3.Implies(z3.And(r >= 0, r + 1 < m), z3.Select(cs, r + 1) == z3.Select(cs, r) + z3.Select(cl, r))),
        z3.ForAll([r], z3.Implies(z3.And(r >= 0, r < m), z3.And(z3.Select(cl, r) >= 1, z3.Select(cs, r) >= 0, change_point(z3.Select(cs, r))))),
        z3.ForAll([r, q], z3.Implies(z3.And(r >= 0, r < m, q > z3.Select(cs, r), q < z3.Select(cs, r) + z3.Select(cl, r)),
                                     z3.Not(change_point(q)))))


def parse_info():
    return {
        "functions": ["gaddlemaps/components/_system.py::SystemGro._parse_gro (residues = maximal runs of equal (number, name), any file length)",
                      "gaddlemaps/components/_system.py::SystemGro._add_residue_init (class invariant of the run-length structure, any history)"],
        "stubs": ["pyvc models: the coordinate file as a cursor over N records (`next` consumes one, `for` continues behind it); AtomGro(line) exposes the "
                  "record's residue number / name (uninterpreted functions of the record index); Residue(atoms) by contract (requires non-empty and one "
                  "(number, name) -- the real constructor raises otherwise); `x in list` on templates as an uninterpreted equivalence that implies equal name and size"],
        "assumptions": ["Residue.__eq__ implies equal residue name and equal size (both compare every atom's resname; residues are non-empty)"],
    }


def task_parse_gro(prop, seed):
    tag = f"{prop}/SystemGro._parse_gro"

    class SelfM:
        def pyvc_copy(self):
            return self

        def pyvc_getattr(self, attr, interp, st):
            if attr == "_open_fgro":
                return FileCursor(st.ghost["cursor"])
            if attr == "_add_residue_init":
                def reg(interp_, st_, args, kw, node):
                    res = args[0]
                    if not isinstance(res, RunList):
                        raise pyvc.PyvcUnsupported("_add_residue_init called with something that is not a Residue model")
                    st_.ghost["calls"].append((res.start, res.length))
                    return None
                return Stub("_add_residue_init", reg)
            raise pyvc.PyvcUnsupported(f"attribute self.{attr} has no model in this sidecar")

    def next_(interp, st, args, kw, node):
        if not args or not isinstance(args[0], FileCursor):
            raise pyvc.PyvcUnsupported("next() on something that is not the coordinate file")
        c = st.ghost["cursor"]
        interp.may_raise(st, c >= N, "StopIteration")
        st.ghost["cursor"] = c + 1
        return LineM(c)

    def atomgro(interp, st, args, kw, node):
        if not args or not isinstance(args[0], LineM):
            raise pyvc.PyvcUnsupported("AtomGro() of something that is not a record of the file")
        return AtomM(args[0].idx)

    def residue(interp, st, args, kw, node):
        s0, ln, contig = norm(args[0])
        q = z3.Int("q!res")
        interp.oblige(st, "Residue.requires.non_empty", ln >= 1)
        interp.oblige(st, "Residue.requires.consecutive_records_in_file_order", contig)
        interp.oblige(st, "Residue.requires.atoms_share_residue_number_and_name",
                      z3.ForAll([q], z3.Implies(z3.And(q >= s0, q < s0 + ln), z3.And(Rid(q) == Rid(s0), Rnm(q) == Rnm(s0)))))
        return RunList(s0, ln)

    def inv(st, k):
        cur = pyvc.local(st, "current_residue")
        prev = pyvc.local(st, "prev_atom_residname")
        if cur is pyvc.UNBOUND or prev is pyvc.UNBOUND:
            return z3.BoolVal(False)
        if not (isinstance(prev, tuple) and len(prev) == 2):
            raise pyvc.PyvcUnsupported("prev_atom_residname is not a (number, name) pair in this version")
        s0, ln, contig = norm(cur)
        q = z3.Int("q!inv")
        c = st.ghost["calls"]
        return z3.And(st.ghost["cursor"] == 1, k >= 0, k <= N - 1, contig, s0 >= 0, ln >= 1, s0 + ln == k + 1,
                      _t(prev[0]) == Rid(s0), _t(prev[1]) == Rnm(s0),
                      z3.ForAll([q], z3.Implies(z3.And(q >= s0, q < s0 + ln), z3.And(Rid(q) == Rid(s0), Rnm(q) == Rnm(s0)))),
                      change_point(s0), tiles(c, s0))

    def fresh_prev(name):
        return (S.SymReal(z3.FreshInt("prev_resid")), S.SymReal(z3.FreshInt("prev_resname")))

    def fresh_cur(name):
        return RunList(z3.FreshInt("cur_start"), z3.FreshInt("cur_len"))

    loops = {0: LoopSpec(inv, ghosts=("calls",), name="records-loop",
                         havoc_like={"prev_atom_residname": fresh_prev, "current_residue": fresh_cur})}
    try:
        it = pyvc.Interp("gaddlemaps/components/_system.py", "SystemGro._parse_gro", {"AtomGro": Stub("AtomGro", atomgro), "Residue": Stub("Residue", residue)},
                         loops, tag, builtins_model={"next": Stub("next", next_)})
        ends = it.run({"self": SelfM()}, ghost={"cursor": z3.IntVal(0), "calls": _calls()}, pre=[N >= 1])
    except (pyvc.PyvcUnsupported, S.SymError) as e:
        return [ob(f"{tag}/vc-generation", "undecided", engine="pyvc", reason=f"outside the pyvc subset: {type(e).__name__}: {e}")]
    out = [ob(f"{tag}/vc-generation", "discharged" if it.obls and ends else "undecided", engine="pyvc", backend="ast",
              sample={"obligations": len(it.obls), "exit_paths": len(ends)})]
    cex = {"kind": "vc", "fn": "d12p:vc", "signature": "parse"}
    for o in it.obls:
        v = discharge(o.name, o.hyps, o.goal, backends=("z3",), engine="pyvc", timeout_ms=30000, seed=seed,
                      sample={"goal": core.short(o.goal, 160), "n_hyps": len(o.hyps)})
        if v["status"] == "refuted":
            v["cex"] = dict(cex, obligation=o.name)
        out.append(v)
    n_ret = 0
    for ei, e in enumerate(ends):
        if e.sig == pyvc.RAISE:
            v = discharge(f"{tag}/exit{ei}/raises.never_for_a_file_with_at_least_one_record", e.pc, z3.BoolVal(False), backends=("z3",), engine="pyvc",
                          timeout_ms=30000)
            if v["status"] == "refuted":
                v["cex"] = dict(cex, signature="parse-raise")
            out.append(v)
            continue
        n_ret += 1
        c = e.ghost["calls"]
        v = discharge(f"{tag}/exit{ei}/ensures.registered_residues_tile_all_records_and_start_exactly_at_changes_of_number_or_name", e.pc,
                      tiles(c, N), backends=("z3",), engine="pyvc", timeout_ms=60000, seed=seed)
        if v["status"] == "refuted":
            v["cex"] = dict(cex, signature="parse-tiling")
        out.append(v)
        out.append(core.must_fail(f"{tag}/exit{ei}/guard.must-fail", e.pc, c.length == 1, engine="pyvc", timeout_ms=10000,
                                  hint=[N == 2, Rid(0) == 1, Rid(1) == 2, Rnm(0) == 0, Rnm(1) == 0]))
    if not n_ret:
        out.append(ob(f"{tag}/normal-exit-exists", "undecided", engine="pyvc", reason="no normal exit"))
    return out


# ---------------------------------------------------------------------------
# SystemGro._add_residue_init against the class invariant of the run-length structure

A1 = z3.ArraySort(I, I)
A2B = z3.ArraySort(I, z3.ArraySort(I, z3.BoolSort()))
A2I = z3.ArraySort(I, z3.ArraySort(I, I))


class Templates:
    """self.different_molecules: nd templates with size, name and equality class (Residue.__eq__ as an equivalence)"""

    def __init__(self, nd, tlen, tname, tcls):
        self.nd, self.tlen, self.tname, self.tcls = nd, tlen, tname, tcls

    def pyvc_copy(self):
        return Templates(self.nd, self.tlen, self.tname, self.tcls)

    def pyvc_contains(self, res):
        if not isinstance(res, ResM):
            raise pyvc.PyvcUnsupported("membership test of something that is not a Residue model")
        j = z3.Int("j!in")
        return S.SymBool(z3.Exists([j], z3.And(j >= 0, j < self.nd, z3.Select(self.tcls, j) == res.cls)))

    def append(self, res):
        if not isinstance(res, ResM):
            raise pyvc.PyvcUnsupported("append of something that is not a Residue model")
        self.tlen = z3.Store(self.tlen, self.nd, res.ln)
        self.tname = z3.Store(self.tname, self.nd, res.nm)
        self.tcls = z3.Store(self.tcls, self.nd, res.cls)
        self.nd = self.nd + 1

    append.pyvc_pure = True

    def pyvc_len(self):
        return S.SymReal(self.nd)


class ResM:
    def __init__(self, ln, nm, cls):
        self.ln, self.nm, self.cls = ln, nm, cls

    @property
    def resname(self):
        return S.SymReal(self.nm)

    def pyvc_len(self):
        return S.SymReal(self.ln)

    def pyvc_copy(self):
        return self


class PkDict:
    """self._molecules_pk: (resname, size) -> template index"""

    def __init__(self, dom, val):
        self.dom, self.val = dom, val

    def pyvc_copy(self):
        return PkDict(self.dom, self.val)

    @staticmethod
    def _k(k):
        if not (isinstance(k, tuple) and len(k) == 2):
            raise pyvc.PyvcUnsupported("the key of _molecules_pk is not a (name, size) pair in this version")
        return _t(k[0]), _t(k[1])

    def has(self, n, l):
        return z3.Select(z3.Select(self.dom, n), l)

    def get(self, n, l):
        return z3.Select(z3.Select(self.val, n), l)

    def pyvc_setitem(self, k, v, interp, st):
        n, l = self._k(k)
        self.dom = z3.Store(self.dom, n, z3.Store(z3.Select(self.dom, n), l, z3.BoolVal(True)))
        self.val = z3.Store(self.val, n, z3.Store(z3.Select(self.val, n), l, _t(v)))

    def pyvc_getitem(self, k, interp, st):
        n, l = self._k(k)
        interp.oblige(st, "safety.key-present[_molecules_pk]", self.has(n, l))
        return S.SymReal(self.get(n, l))

    def pyvc_contains(self, k):
        n, l = self._k(k)
        return S.SymBool(self.has(n, l))


class FlatList:
    """self._molecules_ordered: flat list of integers [kind, amount, kind, amount, ...]"""

    def __init__(self, length, arr):
        self.length, self.arr = length, arr

    def pyvc_copy(self):
        return FlatList(self.length, self.arr)

    def pyvc_truth(self):
        return S.SymBool(self.length != 0)

    def pyvc_len(self):
        return S.SymReal(self.length)

    def _idx(self, i, interp, st):
        it = z3.IntVal(i) if isinstance(i, int) else _t(i)
        interp.oblige(st, "safety.index-in-range[_molecules_ordered]", z3.And(it >= -self.length, it < self.length))
        return z3.simplify(z3.If(it >= 0, it, self.length + it))

    def pyvc_getitem(self, i, interp, st):
        return S.SymReal(z3.Select(self.arr, self._idx(i, interp, st)))

    def pyvc_setitem(self, i, v, interp, st):
        self.arr = z3.Store(self.arr, self._idx(i, interp, st), _t(v))

    def _extended(self, other):
        if not isinstance(other, (list, tuple)):
            raise pyvc.PyvcUnsupported("list extension by something that is not a literal list")
        out = FlatList(self.length, self.arr)
        for x in other:
            out.arr = z3.Store(out.arr, out.length, z3.IntVal(x) if isinstance(x, int) else _t(x))
            out.length = out.length + 1
        return out

    def __add__(self, other):
        return self._extended(other)

    def extend(self, other):
        o = self._extended(other)
        self.length, self.arr = o.length, o.arr

    extend.pyvc_pure = True

    def append(self, x):
        self.extend([x])

    append.pyvc_pure = True


class SysM:
    def __init__(self, dm, pk, mo):
        self.different_molecules, self._molecules_pk, self._molecules_ordered = dm, pk, mo

    def pyvc_copy(self):
        return SysM(self.different_molecules.pyvc_copy(), self._molecules_pk.pyvc_copy(), self._molecules_ordered.pyvc_copy())

    def pyvc_setattr(self, attr, value, interp, st):
        if attr not in ("different_molecules", "_molecules_pk", "_molecules_ordered"):
            raise pyvc.PyvcUnsupported(f"assignment to self.{attr} has no model in this sidecar")
        setattr(self, attr, value)


def rl_inv(s: SysM, RL, m, cum, R):
    """class invariant + ghost: residue q (q < m, sizes RL[q]) belongs to the run r with cum[r] <= q < cum[r+1] and has that run's template size"""
    dm, pk, mo = s.different_molecules, s._molecules_pk, s._molecules_ordered
    r, q, n, l, j = z3.Ints("r!i q!i n!i l!i j!i")
    kind = lambda r_: z3.Select(mo.arr, 2 * r_)
    amount = lambda r_: z3.Select(mo.arr, 2 * r_ + 1)
    return (
        z3.And(dm.nd >= 0, R >= 0, mo.length == 2 * R, m >= 0, z3.Select(cum, 0) == 0, z3.Select(cum, R) == m),
        z3.ForAll([r], z3.Implies(z3.And(r >= 0, r < R),
                                  z3.And(kind(r) >= 0, kind(r) < dm.nd, amount(r) >= 1, z3.Select(cum, r + 1) == z3.Select(cum, r) + amount(r)))),
        z3.ForAll([r, q], z3.Implies(z3.And(r >= 0, r < R, q >= z3.Select(cum, r), q < z3.Select(cum, r + 1)),
                                     z3.Select(RL, q) == z3.Select(dm.tlen, kind(r)))),
        z3.ForAll([r], z3.Implies(z3.And(r >= 0, r <= R), z3.And(z3.Select(cum, r) >= 0, z3.Select(cum, r) <= m))),
        z3.ForAll([n, l], z3.Implies(pk.has(n, l), z3.And(pk.get(n, l) >= 0, pk.get(n, l) < dm.nd, z3.Select(dm.tlen, pk.get(n, l)) == l,
                                                          z3.Select(dm.tname, pk.get(n, l)) == n))),
        z3.ForAll([j], z3.Implies(z3.And(j >= 0, j < dm.nd), z3.And(z3.Select(dm.tlen, j) >= 1, pk.has(z3.Select(dm.tname, j), z3.Select(dm.tlen, j))))))


INV_PARTS = ("sizes_and_prefix_counts", "runs_name_templates_and_count_at_least_one", "registered_sizes_are_the_template_sizes_of_their_runs", "prefix_counts_stay_below_the_total",
             "keys_point_at_templates_of_that_name_and_size", "every_template_has_its_key")


def task_add_residue(prop, seed):
    tag = f"{prop}/SystemGro._add_residue_init"
    nd0, mol0, m0 = z3.Int("n_templates"), z3.Int("len_molecules_ordered"), z3.Int("n_registered")
    tlen0, tname0, tcls0 = z3.Const("template_size", A1), z3.Const("template_name", A1), z3.Const("template_class", A1)
    dom0, val0 = z3.Const("pk_dom", A2B), z3.Const("pk_val", A2I)
    mo0, RL0, cum0 = z3.Const("molecules_ordered", A1), z3.Const("registered_sizes", A1), z3.Const("residues_before_run", A1)
    rl, rn, rc = z3.Int("residue_size"), z3.Int("residue_name"), z3.Int("residue_class")
    s0 = SysM(Templates(nd0, tlen0, tname0, tcls0), PkDict(dom0, val0), FlatList(mol0, mo0))
    old = s0.pyvc_copy()
    j = z3.Int("j!a")
    R0 = z3.Int("n_runs")
    pre = list(rl_inv(old, RL0, m0, cum0, R0)) + [rl >= 1,
           # Residue.__eq__: equal residues have the same name and the same size (assumption, see parse_info)
           z3.ForAll([j], z3.Implies(z3.And(j >= 0, j < nd0, z3.Select(tcls0, j) == rc), z3.And(z3.Select(tlen0, j) == rl, z3.Select(tname0, j) == rn)))]
    try:
        it = pyvc.Interp("gaddlemaps/components/_system.py", "SystemGro._add_residue_init", {}, {}, tag)
        ends = it.run({"self": s0, "residue": ResM(rl, rn, rc)}, pre=pre)
    except (pyvc.PyvcUnsupported, S.SymError) as e:
        return [ob(f"{tag}/vc-generation", "undecided", engine="pyvc", reason=f"outside the pyvc subset: {type(e).__name__}: {e}")]
    out = [ob(f"{tag}/vc-generation", "discharged" if it.obls and ends else "undecided", engine="pyvc", backend="ast",
              sample={"obligations": len(it.obls), "exit_paths": len(ends)})]
    cex = {"kind": "vc", "fn": "d12:vc", "signature": "register"}
    for o in it.obls:
        v = discharge(o.name, o.hyps, o.goal, backends=("z3",), engine="pyvc", timeout_ms=30000, seed=seed,
                      sample={"goal": core.short(o.goal, 160), "n_hyps": len(o.hyps)})
        if v["status"] == "refuted":
            v["cex"] = dict(cex, obligation=o.name)
        out.append(v)
    n_ret = 0
    RL1 = z3.Store(RL0, m0, rl)
    for ei, e in enumerate(ends):
        if e.sig == pyvc.RAISE:
            v = discharge(f"{tag}/exit{ei}/raises.never", e.pc, z3.BoolVal(False), backends=("z3",), engine="pyvc", timeout_ms=30000)
            if v["status"] == "refuted":
                v["cex"] = dict(cex, signature="register-raise")
            out.append(v)
            continue
        n_ret += 1
        s1 = e.env["self"]
        if not isinstance(s1, SysM):
            out.append(ob(f"{tag}/exit{ei}/state-model", "undecided", engine="pyvc", reason="self is no longer the model object"))
            continue
        dm1, mo1 = s1.different_molecules, s1._molecules_ordered
        # ghost witness for the new prefix counts: a new run starts (list two longer) or the last run grows
        grew = z3.simplify(mo1.length == mol0 + 2)
        clauses = {}
        for grew_case, R1, cum_new in ((True, R0 + 1, z3.Store(cum0, R0 + 1, m0 + 1)), (False, R0, z3.Store(cum0, R0, m0 + 1))):
            for pn_, part in zip(INV_PARTS, rl_inv(s1, RL1, m0 + 1, cum_new, R1)):
                clauses[f"ensures.invariant_with_this_residue_added[{'new-run' if grew_case else 'last-run-grows'}].{pn_}"] = \
                    z3.Implies(grew if grew_case else z3.Not(grew), part)
        clauses.update({
            "ensures.list_grows_by_one_run_or_not_at_all": z3.Or(mo1.length == mol0 + 2, mo1.length == mol0),
            "frame.templates_only_appended_to": z3.And(dm1.nd >= nd0, dm1.nd <= nd0 + 1,
                                                       z3.ForAll([j], z3.Implies(z3.And(j >= 0, j < nd0),
                                                                                 z3.And(z3.Select(dm1.tlen, j) == z3.Select(tlen0, j),
                                                                                        z3.Select(dm1.tname, j) == z3.Select(tname0, j),
                                                                                        z3.Select(dm1.tcls, j) == z3.Select(tcls0, j))))),
            "ensures.a_new_template_is_this_residue": z3.Implies(dm1.nd == nd0 + 1, z3.And(z3.Select(dm1.tlen, nd0) == rl, z3.Select(dm1.tname, nd0) == rn,
                                                                                           z3.Select(dm1.tcls, nd0) == rc)),
            "ensures.first_of_its_kind_becomes_a_template": z3.Implies(z3.Not(z3.Exists([j], z3.And(j >= 0, j < nd0, z3.Select(tcls0, j) == rc))), dm1.nd == nd0 + 1),
        })
        for nm_, goal in clauses.items():
            v = discharge(f"{tag}/exit{ei}/{nm_}", e.pc, goal, backends=("z3",), engine="pyvc", timeout_ms=20000, seed=seed)
            if v["status"] == "refuted":
                v["cex"] = dict(cex, signature=nm_)
            out.append(v)
    if not n_ret:
        out.append(ob(f"{tag}/normal-exit-exists", "undecided", engine="pyvc", reason="no normal exit"))
    # vacuity guard: the precondition has a model (empty structure)
    out.append(core.must_fail(f"{tag}/guard.must-fail", pre, z3.BoolVal(False), engine="pyvc", timeout_ms=10000,
                              hint=[nd0 == 0, mol0 == 0, m0 == 0, dom0 == z3.K(I, z3.K(I, z3.BoolVal(False))), cum0 == z3.K(I, z3.IntVal(0))]))
    return out


def parse_tasks(prop, tier, seed):
    return [("SystemGro._parse_gro/pyvc", task_parse_gro, (prop, seed), 600.0),
            ("SystemGro._add_residue_init/pyvc", task_add_residue, (prop, seed), 600.0)]


if __name__ == "__main__":
    import json
    import sys
    for o_ in task_parse_gro("C12", 0) + task_add_residue("C12", 0):
        print(o_["status"], o_["id"], o_.get("reason", "")[:300], o_.get("secs"))
