"""Deductive part of C13 / C14 (writer side): the layout invariant of a GroFile opened for writing, as method contracts.

Writer invariant  W(k)  (k = records written so far, k >= 1):
    first_atom_offset = title line + count line,   line_size >= 1,   cursor = file length = first_atom_offset + k * line_size,
    and, when the count was not declared, the count line is a placeholder of NUMBER_FIGURES blanks + newline that ends at first_atom_offset.

GroFile._setup_write_file   -- fresh file  ->  W(1)
GroFile.writeline           -- W(k) -> W(k+1)  (and the first call delegates to _setup_write_file)
GroFile._write_closing_info -- W(k) -> the count (if it was not declared) is written EXACTLY over the placeholder
                               [first_atom_offset - NUMBER_FIGURES - 1, first_atom_offset), the box line is appended exactly at
                               first_atom_offset + k*line_size (directly after the last record), nothing else is written;
                               a declared count different from k raises.
By induction over the number of writeline calls (each call is checked against the callee's contract, not its body) a finished
file of n records is   title | count | n equal-sized records | box.   Corollary with the reader's theorem (d14): a writer that
declared n records and stops after k <= n writeline calls leaves a file the reader refuses.

The file is (length, cursor, list of writes); strings are known by their length only.  Record text: parse_atomlist by contract
(one length per format: proved separately on the real function, C13 record layout).
"""
from __future__ import annotations

import z3

from vf import symrun as S, core, pyvc, seq
from vf.core import ob, discharge
from vf.pyvc import Stub

I = z3.IntSort()
POS, LEN = "file.pos", "file.len"
LINE = z3.Int("record_text_length")        # len(parse_atomlist(record, format)) for the format in force
BOX = z3.Int("box_text_length")
TITLE = z3.Int("title_length")
TitleNL = z3.Bool("title_ends_with_newline")
DigLen = z3.Function("decimal_digits", I, I)


def deductive_info():
    return {
        "functions": ["gaddlemaps/parsers/__init__.py::GroFile._setup_write_file (fresh file -> writer invariant)",
                      "gaddlemaps/parsers/__init__.py::GroFile.writeline (invariant preserved, one record appended)",
                      "gaddlemaps/parsers/__init__.py::GroFile._write_closing_info (count written exactly over the placeholder, box appended after the last record)"],
        "stubs": ["pyvc models: the file as (length, cursor, list of writes); strings by length; parse_atomlist / dump_lattice_gro return text of one symbolic length; "
                  "str.format of the count: width taken from the literal pattern by evaluating it with CPython on sample values; seek_atom by the contract proved in C12"],
        "assumptions": ["every record given to writeline is a list/tuple (a str is written verbatim by design and may have any length)",
                        "parse_atomlist returns text of one length for a fixed format (C13 record-layout obligations on the real function)",
                        "file offsets are character counts (text mode, '\\n' newlines, ASCII)"],
        "explanation": ("Deductive: the writer's layout invariant (cursor = file length = first_atom_offset + k*line_size; the deferred count overwrites exactly its "
                        "placeholder; the box follows the last record) is verified on the AST of _setup_write_file / writeline / _write_closing_info, each against the "
                        "others' contracts. "),
    }


class Text:
    """a string known by its length (z3 Int)"""

    def __init__(self, length, ends_nl=None):
        self.length, self.ends_nl = length, ends_nl

    def endswith(self, s):
        if s == "\n" and self.ends_nl is not None:
            return S.SymBool(self.ends_nl)
        raise pyvc.PyvcUnsupported("endswith on this text")
    endswith.pyvc_pure = True

    def __add__(self, o):
        if isinstance(o, str):
            return Text(self.length + len(o), z3.BoolVal(o.endswith("\n")) if o else self.ends_nl)
        if isinstance(o, Text):
            return Text(self.length + o.length, o.ends_nl)
        return NotImplemented

    def __radd__(self, o):
        if isinstance(o, str):
            return Text(self.length + len(o), self.ends_nl)
        return NotImplemented

    def pyvc_copy(self):
        return self


def _fmt_len(pattern, args, kw, figures):
    """length of pattern.format(n, ...) for the count patterns: the pattern's behaviour is sampled from CPython, not assumed"""
    if len(args) != 1:
        raise pyvc.PyvcUnsupported("format with several values")
    n = _key(args[0])
    kwc = {k: (v if isinstance(v, int) else None) for k, v in kw.items()}
    if any(v is None for v in kwc.values()):
        raise pyvc.PyvcUnsupported("format with a symbolic keyword")
    try:
        s = [pattern.format(v, **kwc) for v in (0, 7, 10 ** figures - 1, 12345)]
    except Exception as e:
        raise pyvc.PyvcUnsupported(f"count pattern {pattern!r}: {e}")
    if all(len(x) == len(s[0]) for x in s) and s[0].strip() == "0" and s[2].strip() == str(10 ** figures - 1):
        w = len(s[0])       # fixed-width field (for values of at most `figures` digits)
        return z3.If(z3.And(n >= 0, n < 10 ** figures), z3.IntVal(w), DigLen(n) + (w - figures))
    extra = len(s[0]) - 1
    if all(len(x) - len(str(v)) == extra for x, v in zip(s, (0, 7, 10 ** figures - 1, 12345))):
        return DigLen(n) + extra      # plain decimal + fixed decoration
    raise pyvc.PyvcUnsupported(f"count pattern {pattern!r} is neither fixed-width nor plain decimal")


def _key(v):
    return v if isinstance(v, z3.ExprRef) else seq.SymDict._key(v)


def _real_constants():
    import importlib
    P = importlib.import_module("gaddlemaps.parsers")
    G = P.GroFile
    return int(G.NUMBER_FIGURES), G.DEFAULT_POSTION_FORMAT


class FileM:
    def pyvc_copy(self):
        return self

    def __init__(self, figures):
        self.figures = figures

    def _text_len(self, x):
        if isinstance(x, str):
            return z3.IntVal(len(x))
        if isinstance(x, Text):
            return x.length
        if isinstance(x, CountText):
            return x.length
        raise pyvc.PyvcUnsupported(f"write of a {type(x).__name__}")

    def pyvc_getattr(self, attr, interp, st):
        if attr == "write":
            def write(it, s_, a, k, n):
                ln = self._text_len(a[0])
                pos = s_.ghost[POS]
                s_.log.append(("write", pos, ln, a[0]))
                s_.ghost[POS] = pos + ln
                s_.ghost[LEN] = z3.If(pos + ln > s_.ghost[LEN], pos + ln, s_.ghost[LEN])
                return None
            return Stub("write", write)
        if attr == "tell":
            return Stub("tell", lambda it, s_, a, k, n: S.SymReal(s_.ghost[POS]))
        if attr == "seek":
            def seek(it, s_, a, k, n):
                t = _key(a[0])
                it.may_raise(s_, t < 0, "ValueError")
                s_.log.append(("seek", t))
                s_.ghost[POS] = t
                return None
            return Stub("seek", seek)
        if attr == "mode":
            return "w"
        raise pyvc.PyvcUnsupported(f"file.{attr}")


class Opaque:
    def pyvc_copy(self):
        return self


class CountText:
    def __init__(self, length):
        self.length = length

    def pyvc_copy(self):
        return self


class Optional_(S.SymReal):
    """an attribute that is None or an Int, decided by a Boolean term; usable as the Int wherever the code has excluded None"""

    def __init__(self, is_none, value):
        S.SymReal.__init__(self, value)
        self.is_none, self.value = is_none, value

    def pyvc_is_none(self):
        return S.SymBool(self.is_none) if isinstance(self.is_none, z3.ExprRef) else bool(self.is_none)

    def pyvc_copy(self):
        return self


class FormatM:
    def pyvc_copy(self):
        return self

    def pyvc_getitem(self, key, interp, st):
        v = st.ghost.get(f"format:{key}", "<unset>")
        if v == "<unset>":
            raise pyvc.PyvcUnsupported(f"_format[{key!r}]")
        return v

    def pyvc_setitem(self, key, value, interp, st):
        st.ghost[f"format:{key}"] = value


class SelfW:
    def __init__(self, methods, figures, default_fmt):
        self.methods, self.figures, self.default_fmt = methods, figures, default_fmt
        self.file = FileM(figures)

    def pyvc_copy(self):
        return self

    def pyvc_getattr(self, attr, interp, st):
        if attr == "_file":
            return self.file
        if attr == "NUMBER_FIGURES":
            return self.figures
        if attr == "DEFAULT_POSTION_FORMAT":
            return self.default_fmt
        if attr == "_format":
            return FormatM()
        if attr == "comment":
            return Text(TITLE, TitleNL)
        if attr == "natoms":
            v = st.ghost["attr:_natoms"]
            if isinstance(v, Optional_):
                interp.may_raise(st, v.is_none if isinstance(v.is_none, z3.ExprRef) else z3.BoolVal(bool(v.is_none)), "ValueError")
                return S.SymReal(v.value)
            return v
        if attr in self.methods:
            return self.methods[attr]
        k = f"attr:{attr}"
        if k in st.ghost:
            v = st.ghost[k]
            return v
        raise pyvc.PyvcUnsupported(f"self.{attr} has no model")

    def pyvc_setattr(self, attr, value, interp, st):
        st.ghost[f"attr:{attr}"] = value


def _num_attr(st, name):
    v = st.ghost[f"attr:{name}"]
    if isinstance(v, Optional_):
        return v.value
    return _key(v)


def _seek_atom_contract(interp, st, args, kw, node):
    idx = _key(args[0])
    nat = st.ghost["attr:_natoms"]
    if isinstance(nat, Optional_):
        interp.may_raise(st, nat.is_none if isinstance(nat.is_none, z3.ExprRef) else z3.BoolVal(bool(nat.is_none)), "ValueError")
        nat_t = nat.value
    else:
        nat_t = _key(nat)
    interp.may_raise(st, idx > nat_t, "IndexError")
    tgt = _num_attr(st, "_init_position") + idx * _num_attr(st, "_atomline_bytesize")
    interp.may_raise(st, tgt < 0, "ValueError")
    st.ghost[POS] = tgt
    st.ghost["attr:_current_atom"] = S.SymReal(idx)
    st.log.append(("seek", tgt))
    return None


_EXC = {"IOError": IOError, "ValueError": ValueError, "IndexError": IndexError}


def _str_hook(figures):
    def hook(recv, method, args, kw):
        if method == "format" and len(args) == 1 and isinstance(args[0], (S.SymReal, z3.ExprRef)):
            return CountText(_fmt_len(recv, args, kw, figures))
        return pyvc.OpaqueStr()          # any other built text (messages): may not be written to the file
    return hook


def _run(tag, qual, selfm, args, ghost, pre, globals_model, figures):
    it = pyvc.Interp("gaddlemaps/parsers/__init__.py", qual, dict(_EXC, **globals_model), {}, tag)
    it.str_hook = _str_hook(figures)
    ends = it.run(dict({"self": selfm}, **args), ghost=ghost, pre=pre)
    return it, ends


def _wrap(tag, fn):
    try:
        return fn()
    except (pyvc.PyvcUnsupported, S.SymError) as e:
        return [ob(f"{tag}/vc-generation", "undecided", engine="pyvc", reason=f"outside the pyvc subset: {type(e).__name__}: {e}")]


def _post(out, tag, ei, e, clauses, seed, cex):
    for name, goal in clauses:
        v = discharge(f"{tag}/exit{ei}/ensures.{name}", e.pc, goal, backends=("z3",), engine="pyvc", timeout_ms=30000, seed=seed)
        if v["status"] == "refuted":
            v["cex"] = dict(cex, clause=name)
        out.append(v)
    out.append(core.must_fail(f"{tag}/exit{ei}/guard.must-fail", e.pc, z3.BoolVal(False), engine="pyvc", timeout_ms=10000))


def _writes(e):
    return [ev for ev in e.log if ev[0] == "write"]


def task_setup(prop, seed, velocities=False, preset_format=False):
    tag = f"{prop}/GroFile._setup_write_file[{'vel' if velocities else 'novel'},{'format-set' if preset_format else 'format-default'}]"

    def go():
        figures, dfmt = _real_constants()
        Declared = z3.Bool("count_declared")
        NAT = z3.Int("declared_count")

        def writeline_contract(interp, st, a, k, n):
            # contract of writeline on an initialised writer (proved by task_writeline): one record of LINE+1 characters appended at the cursor
            pos = st.ghost[POS]
            st.log.append(("write", pos, LINE + 1, "<record>"))
            st.ghost[POS] = pos + LINE + 1
            st.ghost[LEN] = z3.If(pos + LINE + 1 > st.ghost[LEN], pos + LINE + 1, st.ghost[LEN])
            st.ghost["attr:_current_atom"] = S.SymReal(_key(st.ghost["attr:_current_atom"]) + 1)
            return None
        selfm = SelfW({"writeline": Stub("writeline", writeline_contract),
                       "parse_atomline": Stub("parse_atomline", lambda *a: _unsupported("a str record"))}, figures, dfmt)
        record = tuple(["<field>"] * (10 if velocities else 7))
        ghost = {POS: z3.IntVal(0), LEN: z3.IntVal(0), "attr:_init_position": Optional_(True, z3.IntVal(0)), "attr:_atomline_bytesize": Optional_(True, z3.IntVal(0)),
                 "attr:_natoms": Optional_(z3.Not(Declared), NAT), "attr:_current_atom": S.SymReal(z3.IntVal(0)),
                 "format:position": (dfmt if preset_format else None), "format:velocities": None}
        it, ends = _run(tag, "GroFile._setup_write_file", selfm, {"atomlist": record}, ghost,
                        [LINE >= 1, TITLE >= 0, z3.Implies(TitleNL, TITLE >= 1), NAT >= 0, DigLen(NAT) >= 1], {}, figures)
        out = [ob(f"{tag}/vc-generation", "discharged" if ends else "undecided", engine="pyvc", backend="ast", sample={"exit_paths": len(ends)})]
        cex = {"kind": "vc", "fn": "d13:vc", "signature": "setup"}
        for o in it.obls:
            out.append(discharge(o.name, o.hyps, o.goal, backends=("z3",), engine="pyvc", timeout_ms=30000, seed=seed))
        n = 0
        for ei, e in enumerate(ends):
            if e.sig != pyvc.RETURN:
                out.append(ob(f"{tag}/exit{ei}/no-exception", "undecided", engine="pyvc", reason=f"a path raises {e.val}"))
                continue
            n += 1
            g = e.ghost
            init, size, cur = _num_attr(e, "_init_position"), _num_attr(e, "_atomline_bytesize"), _key(g["attr:_current_atom"])
            w = _writes(e)
            contiguous = z3.And(*[w[i][1] + w[i][2] == w[i + 1][1] for i in range(len(w) - 1)]) if len(w) > 1 else z3.BoolVal(True)
            count_w = [x for x in w if isinstance(x[3], (CountText,)) or (isinstance(x[3], str) and x[3].strip() == "" and len(x[3]) > 1)]
            clauses = [("writer_invariant_after_the_first_record", z3.And(cur == 1, size == LINE + 1, g[POS] == init + size, g[LEN] == g[POS], init >= 1)),
                       ("writes_are_contiguous_from_offset_0", z3.And(w[0][1] == 0, contiguous) if w else z3.BoolVal(False)),
                       ("first_atom_offset_is_the_end_of_the_count_line",
                        z3.And(len(count_w) == 1, count_w[0][1] + count_w[0][2] == init) if len(count_w) == 1 else z3.BoolVal(False)),
                       ("undeclared_count_leaves_a_placeholder_of_exactly_the_width_close_will_write",
                        z3.Implies(z3.Not(Declared), count_w[0][2] == figures + 1) if len(count_w) == 1 else z3.BoolVal(False)),
                       ("format_and_velocity_flag_recorded", z3.BoolVal(g.get("format:position") == dfmt and g.get("format:velocities") is velocities))]
            _post(out, tag, ei, e, clauses, seed, cex)
        if not n:
            out.append(ob(f"{tag}/normal-exit-exists", "undecided", engine="pyvc", reason="no normal exit"))
        return out
    return _wrap(tag, go)


def _initialised_ghost(Declared, NAT, K, INIT, SIZE, dfmt, velocities):
    return {POS: INIT + K * SIZE, LEN: INIT + K * SIZE, "attr:_init_position": S.SymReal(INIT), "attr:_atomline_bytesize": S.SymReal(SIZE),
            "attr:_natoms": Optional_(z3.Not(Declared), NAT), "attr:_current_atom": S.SymReal(K),
            "format:position": dfmt, "format:velocities": velocities, "attr:_box_matrix": "<box>"}


def task_writeline(prop, seed):
    tag = f"{prop}/GroFile.writeline"

    def go():
        figures, dfmt = _real_constants()
        Declared, NAT, K, INIT, SIZE = z3.Bool("count_declared"), z3.Int("declared_count"), z3.Int("records_written"), z3.Int("first_atom_offset"), z3.Int("line_size")
        out = []
        cex = {"kind": "vc", "fn": "d13:vc", "signature": "writeline"}
        # (a) initialised writer; the formatter may REFUSE the record (wrong number of fields, non-numeric value, velocities mismatch): free choice
        Refused = z3.Bool("record_refused_by_the_formatter")

        def parse_contract(it_, st_, a, k, n):
            it_.may_raise(st_, Refused, "ValueError")
            return Text(LINE)
        selfm = SelfW({"parse_atomlist": Stub("parse_atomlist", parse_contract),
                       "_setup_write_file": Stub("_setup_write_file", lambda *a: _unsupported("setup on an initialised writer"))}, figures, dfmt)
        it, ends = _run(tag, "GroFile.writeline", selfm, {"atomlist": tuple(["<field>"] * 7)}, _initialised_ghost(Declared, NAT, K, INIT, SIZE, dfmt, False),
                        [K >= 1, INIT >= 1, SIZE == LINE + 1, LINE >= 1], {}, figures)
        out.append(ob(f"{tag}/vc-generation", "discharged" if ends else "undecided", engine="pyvc", backend="ast", sample={"exit_paths": len(ends)}))
        for ei, e in enumerate(ends):
            if e.sig == pyvc.RAISE:
                # a refused record leaves no trace: nothing written, counter / cursor / file length as before (the caller may go on writing)
                g = e.ghost
                _post(out, tag, ei, e, [("raises.only_when_the_formatter_refuses_the_record", Refused),
                                        ("refused_record_leaves_the_writer_unchanged",
                                         z3.And(z3.BoolVal(not _writes(e)), _key(g["attr:_current_atom"]) == K, g[POS] == INIT + K * SIZE, g[LEN] == g[POS],
                                                _num_attr(e, "_init_position") == INIT, _num_attr(e, "_atomline_bytesize") == SIZE))], seed, cex)
                continue
            if e.sig != pyvc.RETURN:
                out.append(ob(f"{tag}/exit{ei}/no-exception", "undecided", engine="pyvc", reason=f"a path ends with {e.sig}"))
                continue
            g = e.ghost
            w = _writes(e)
            total = sum((x[2] for x in w), z3.IntVal(0))
            contiguous = z3.And(*[w[i][1] + w[i][2] == w[i + 1][1] for i in range(len(w) - 1)]) if len(w) > 1 else z3.BoolVal(True)
            _post(out, tag, ei, e, [("one_record_of_line_size_appended_at_the_end", z3.And(w[0][1] == INIT + K * SIZE, contiguous, total == SIZE) if w else z3.BoolVal(False)),
                                    ("writer_invariant_preserved", z3.And(_key(g["attr:_current_atom"]) == K + 1, g[POS] == INIT + (K + 1) * SIZE, g[LEN] == g[POS],
                                                                         _num_attr(e, "_init_position") == INIT, _num_attr(e, "_atomline_bytesize") == SIZE))], seed, cex)
        # (b) first call: delegates to _setup_write_file and does nothing else
        tag2 = tag + "[first-call]"
        calls = []
        selfm2 = SelfW({"parse_atomlist": Stub("parse_atomlist", lambda it, st, a, k, n: Text(LINE)),
                        "_setup_write_file": Stub("_setup_write_file", lambda it, st, a, k, n: st.log.append(("setup", a[0])))}, figures, dfmt)
        rec = tuple(["<field>"] * 7)
        g0 = {POS: z3.IntVal(0), LEN: z3.IntVal(0), "attr:_init_position": Optional_(True, z3.IntVal(0)), "attr:_atomline_bytesize": Optional_(True, z3.IntVal(0)),
              "attr:_natoms": Optional_(z3.Not(Declared), NAT), "attr:_current_atom": S.SymReal(z3.IntVal(0)), "format:position": None, "format:velocities": None}
        it2, ends2 = _run(tag2, "GroFile.writeline", selfm2, {"atomlist": rec}, g0, [], {}, figures)
        for ei, e in enumerate(ends2):
            ok = e.sig == pyvc.RETURN and [ev for ev in e.log if ev[0] == "setup"] == [("setup", rec)] and not _writes(e)
            out.append(ob(f"{tag2}/exit{ei}/ensures.delegates_to_setup_with_the_record_and_writes_nothing_itself", "discharged" if ok else "refuted", engine="pyvc", backend="ast",
                          cex=None if ok else dict(cex, clause="first-call")))
        return out
    return _wrap(tag, go)


def task_closing(prop, seed):
    tag = f"{prop}/GroFile._write_closing_info"

    def go():
        figures, dfmt = _real_constants()
        Declared, NAT, K, INIT, SIZE = z3.Bool("count_declared"), z3.Int("declared_count"), z3.Int("records_written"), z3.Int("first_atom_offset"), z3.Int("line_size")
        selfm = SelfW({"seek_atom": Stub("seek_atom", _seek_atom_contract)}, figures, dfmt)
        g = {"dump_lattice_gro": Stub("dump_lattice_gro", lambda it, st, a, k, n: Text(BOX)), "warnings": pyvc.Noop()}
        pre = [K >= 1, K < 10 ** figures, INIT >= figures + 2, SIZE >= 2, BOX >= 1, NAT >= 0]
        it, ends = _run(tag, "GroFile._write_closing_info", selfm, {}, _initialised_ghost(Declared, NAT, K, INIT, SIZE, dfmt, False), pre, g, figures)
        out = [ob(f"{tag}/vc-generation", "discharged" if ends else "undecided", engine="pyvc", backend="ast",
                  sample={"exit_paths": len(ends), "raising_exits": sum(1 for e in ends if e.sig == pyvc.RAISE)})]
        cex = {"kind": "vc", "fn": "d13:vc", "signature": "closing"}
        for o in it.obls:
            out.append(discharge(o.name, o.hyps, o.goal, backends=("z3",), engine="pyvc", timeout_ms=30000, seed=seed))
        n = 0
        for ei, e in enumerate(ends):
            if e.sig == pyvc.RAISE:
                v = discharge(f"{tag}/exit{ei}/raises.only_when_the_declared_count_differs_from_the_records_written", e.pc, z3.And(Declared, NAT != K), backends=("z3",), engine="pyvc")
                if v["status"] == "refuted":
                    v["cex"] = dict(cex, clause="raises")
                out.append(v)
                continue
            n += 1
            w = _writes(e)
            count_w = [x for x in w if isinstance(x[3], CountText)]
            rest = [x for x in w if not isinstance(x[3], CountText)]
            total_rest = sum((x[2] for x in rest), z3.IntVal(0))
            contiguous = z3.And(*[rest[i][1] + rest[i][2] == rest[i + 1][1] for i in range(len(rest) - 1)]) if len(rest) > 1 else z3.BoolVal(True)
            clauses = [("undeclared_count_is_written_exactly_over_its_placeholder",
                        z3.Implies(z3.Not(Declared), z3.And(count_w[0][1] == INIT - figures - 1, count_w[0][2] == figures + 1) if len(count_w) == 1 else z3.BoolVal(False))),
                       ("declared_count_is_not_rewritten", z3.Implies(Declared, z3.BoolVal(len(count_w) == 0)) if True else None),
                       ("box_line_appended_directly_after_the_last_record",
                        z3.And(rest[0][1] == INIT + K * SIZE, contiguous, total_rest == BOX + 1) if rest else z3.BoolVal(False)),
                       ("finished_only_with_count_equal_to_records_written", z3.Implies(Declared, NAT == K)),
                       ("file_ends_with_the_box_line", e.ghost[LEN] == INIT + K * SIZE + BOX + 1)]
            _post(out, tag, ei, e, clauses, seed, cex)
        if not n:
            out.append(ob(f"{tag}/normal-exit-exists", "undecided", engine="pyvc", reason="no normal exit"))
        return out
    return _wrap(tag, go)


def task_crash_corollary(prop, seed):
    """declared count n, crash after k <= n complete writeline calls (close not reached): the reader refuses the file.
    From  W(k): length = init + k*size  and the reader's proved postcondition  accepted => length > r_init + r_count * r_size  (d14),
    with what the reader reads from such a file: r_init = init, r_count = n, r_size = size."""
    tag = f"{prop}/corollary.declared_count_crash_before_close_is_refused"
    n, k, init, size, N = z3.Ints("declared n_written init size file_length")
    hyps = [k >= 1, k <= n, init >= 1, size >= 1, N == init + k * size,     # writer invariant W(k)
            N > init + n * size]                                           # reader accepted
    return [discharge(f"{tag}/lemma", hyps, z3.BoolVal(False), backends=("z3",), engine="lemma", timeout_ms=20000, seed=seed),
            core.must_fail(f"{tag}/guard.must-fail", hyps[:-1], z3.BoolVal(False), engine="lemma", timeout_ms=10000)]


def _unsupported(msg):
    raise pyvc.PyvcUnsupported(msg)


def _soft(fn, *args):
    """C14 use: the writer's layout is demanded by C13 (round trip); for C14 (partial files are refused) it is a supporting contract:
    an obligation that stops holding leaves the deductive chain open (undecided) -- whether partial files are then accepted is judged by
    C14's bounded part on the real reader."""
    out = fn(*args)
    for v in out:
        if v.get("status") == "refuted" and v.get("kind") != "guard":
            v["status"] = "undecided"
            v["reason"] = "supporting contract (writer layout, demanded by C13) no longer holds: " + str(v.get("reason", ""))[:200]
            v.pop("cex", None)
    return out


def deductive_tasks(prop, tier, seed, soft=False):
    ts = [("GroFile._setup_write_file/pyvc/novel", task_setup, (prop, seed, False, False), 300.0),
          ("GroFile._setup_write_file/pyvc/vel+format", task_setup, (prop, seed, True, True), 300.0),
          ("GroFile.writeline/pyvc", task_writeline, (prop, seed), 300.0),
          ("GroFile._write_closing_info/pyvc", task_closing, (prop, seed), 300.0),
          ("corollary/declared-count-crash", task_crash_corollary, (prop, seed), 120.0)]
    if soft:
        ts = [(n, _soft, (fn,) + tuple(a), lim) for n, fn, a, lim in ts]
    return ts
