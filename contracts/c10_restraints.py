"""C10 -- restraint pairs always designate the atoms the user (or the guesser) meant.

Deductive part
  * remove_hydrogens (gaddlemaps/_alignment.py): pyvc on the real AST, molecules and restraint lists of ARBITRARY
    length.  Inputs are symbolic sequences (IsH(i), Pos(i), R1(t), R2(t) uninterpreted); the lists/dict the function
    builds are z3 arrays with a length / domain.  Two loop invariants over the ghost counting functions
        rank(i) = number of non-hydrogen atoms before i          cnt(t) = number of kept restraints before t
    Post (from the statement): the returned positions are the positions of the non-hydrogen atoms in order
    (position of atom i at index rank(i)); the returned restraints are the order-preserving filter of the input:
    a pair is kept iff its fixed-side atom is a non-hydrogen atom of the molecule, the kept pair number cnt(t)
    designates (rank(R1(t)), R2(t)): the same two atoms, the mobile side untouched.
  * _split_list(alist, k): for every k in 1..40 and EVERY list length L >= k (symbolic): the k slices are contiguous,
    in order, non-empty and cover [0, L) -- linear integer arithmetic (floor division by the constant k).
    The slice expressions are taken from the AST of the real function.
Bounded part: contracts/b10_routing.py.
"""
from __future__ import annotations

import ast

import numpy as np
import z3

from vf import symrun as S, core, pyvc, seq
from vf.core import ob, discharge
from vf.pyvc import LoopSpec, St, Stub
from . import _merge, b10_routing

PROP = "C10"
REL = "gaddlemaps/_alignment.py"


def info(prop):
    base = {
        "level": "other",
        "functions": [f"{REL}::remove_hydrogens", f"{REL}::_split_list"],
        "stubs": ["pyvc models: enumerate/len on symbolic sequences, list.append / dict item assignment / `in` as z3 arrays, "
                  "numpy.array(list of rows) = the rows in order, atom.element != 'H' as the uninterpreted predicate IsH"],
        "trusted_base": ["z3 5.1 (quantified array VCs)", "vf/pyvc.py", "vf/seq.py"],
        "assumptions": ["the element test of an atom is a pure predicate of the atom (AtomGro.element: regular expression on the name)",
                        "numpy.array of a list of position rows keeps the rows in order",
                        "restraint entries are pairs of integers"],
        "explanation": ("remove_hydrogens: loop invariants with ghost counting functions on the AST of the real function, arbitrary molecule size and arbitrary "
                        "restraint list; VCs over arrays + quantifiers discharged by z3. _split_list: all list lengths for each number of parts 1..40. "),
        "rule": "deductive: one obligation per (function, clause, path)",
    }
    from . import d10_protein_vc as D
    h = D.deductive_info()
    base["functions"] = base["functions"] + h["functions"]
    base["stubs"] = base["stubs"] + h["stubs"]
    base["assumptions"] = base["assumptions"] + h["assumptions"]
    base["explanation"] = base["explanation"] + h["explanation"]
    return _merge.merged_info(base, b10_routing)


# ---------------------------------------------------------------------------
# remove_hydrogens

Pos = z3.DeclareSort("Position")
IsH = z3.Function("is_hydrogen", z3.IntSort(), z3.BoolSort())
PosF = z3.Function("position_of_atom", z3.IntSort(), Pos)
R1 = z3.Function("restraint_fixed_index", z3.IntSort(), z3.IntSort())
R2 = z3.Function("restraint_mobile_index", z3.IntSort(), z3.IntSort())
rank = z3.Function("rank_nonH_before", z3.IntSort(), z3.IntSort())
cnt = z3.Function("kept_restraints_before", z3.IntSort(), z3.IntSort())
N, Mn = z3.Int("n_atoms"), z3.Int("n_restraints")


class SymPos:
    def __init__(self, t):
        self.t = t

    def pyvc_copy(self):
        return self


class SymElem:
    def __init__(self, i):
        self.i = i

    def __ne__(self, o):
        if o == "H":
            return S.SymBool(z3.Not(IsH(self.i)))
        raise pyvc.PyvcUnsupported("element compared with something else than 'H'")

    def __eq__(self, o):
        if o == "H":
            return S.SymBool(IsH(self.i))
        raise pyvc.PyvcUnsupported("element compared with something else than 'H'")

    __hash__ = None


class SymAtom:
    def __init__(self, i):
        self.i = i

    @property
    def element(self):
        return SymElem(self.i)

    @property
    def position(self):
        return SymPos(PosF(self.i))

    def pyvc_copy(self):
        return self


def keep(t):
    return z3.And(R1(t) >= 0, R1(t) < N, z3.Not(IsH(R1(t))))


def _defs():
    """recursive definitions of the ghost counting functions"""
    i = z3.Int("i!def")
    return [rank(0) == 0, cnt(0) == 0,
            z3.ForAll([i], z3.Implies(i >= 0, rank(i + 1) == rank(i) + z3.If(IsH(i), 0, 1)), patterns=[rank(i + 1)]),
            z3.ForAll([i], z3.Implies(i >= 0, cnt(i + 1) == cnt(i) + z3.If(keep(i), 1, 0)), patterns=[cnt(i + 1)])]


def _inst(k):
    """instances of the recursive definitions at k (quantifier instantiation done by hand: sound, they are instances)"""
    return [z3.Implies(k >= 0, rank(k + 1) == rank(k) + z3.If(IsH(k), 0, 1)),
            z3.Implies(k >= 0, cnt(k + 1) == cnt(k) + z3.If(keep(k), 1, 0))]


def _loop1_inv(st: St, k):
    e = st.env
    pos, mp = pyvc.local(st, "positions", seq.SymList), pyvc.local(st, "index_1map", seq.SymDict)
    if pos is pyvc.UNBOUND or mp is pyvc.UNBOUND:
        return z3.BoolVal(False)
    i = z3.Int("i!1")
    return z3.And(
        k >= 0, k <= N, pos.length == rank(k), rank(k) >= 0,
        z3.ForAll([i], z3.Implies(z3.And(i >= 0, i < k, z3.Not(IsH(i))),
                                  z3.And(z3.Select(mp.dom, i), z3.Select(mp.val, i) == rank(i), rank(i) >= 0, rank(i) < pos.length,
                                         z3.Select(pos.arrays[0], rank(i)) == PosF(i)))),
        z3.ForAll([i], z3.Implies(z3.Select(mp.dom, i), z3.And(i >= 0, i < k, z3.Not(IsH(i))))))


def _loop2_inv(st: St, t):
    e = st.env
    pos, mp, out = pyvc.local(st, "positions", seq.SymList), pyvc.local(st, "index_1map", seq.SymDict), pyvc.local(st, "new_restrictions", seq.SymList)
    if pos is pyvc.UNBOUND or mp is pyvc.UNBOUND or out is pyvc.UNBOUND:
        return z3.BoolVal(False)
    u = z3.Int("u!2")
    return z3.And(
        _loop1_inv(st, N),
        t >= 0, t <= Mn, out.length == cnt(t), cnt(t) >= 0,
        z3.ForAll([u], z3.Implies(z3.And(u >= 0, u < t, keep(u)),
                                  z3.And(cnt(u) >= 0, cnt(u) < out.length,
                                         z3.Select(out.arrays[0], cnt(u)) == rank(R1(u)),
                                         z3.Select(out.arrays[1], cnt(u)) == R2(u)))))


def task_remove_hydrogens(seed):
    tag = f"{PROP}/remove_hydrogens"
    out = []
    molecule = seq.SymSeq("molecule", N, lambda i: SymAtom(i))
    restrictions = seq.SymSeq("restrictions", Mn, lambda t: (S.SymReal(R1(t)), S.SymReal(R2(t))))

    def np_array(interp, st, args, kw, node):
        if len(args) == 1 and isinstance(args[0], seq.SymList) and not kw:
            return args[0]          # contract of numpy.array on a list of rows: the rows, in order
        raise pyvc.PyvcUnsupported("np.array call shape")

    class NS:
        pass
    np_ns = NS()
    np_ns.array = Stub("np.array", np_array)

    def on_start1(interp, st, k):
        for h in _inst(k):
            st.assume(h)

    loops = {0: LoopSpec(_loop1_inv, name="atoms-loop", on_iteration_start=on_start1),
             1: LoopSpec(_loop2_inv, name="restraints-loop", on_iteration_start=on_start1)}
    try:
        it = pyvc.Interp(REL, "remove_hydrogens", {"np": np_ns}, loops, tag, builtins_model={"enumerate": seq.sym_enumerate})
        it.containers = {
            "positions": lambda: seq.SymList("positions", [Pos], lambda c: SymPos(c[0]), lambda x: [x.t]),
            "index_1map": lambda: seq.SymDict("index_1map"),
            "new_restrictions": lambda: seq.SymList("new_restrictions", [z3.IntSort(), z3.IntSort()],
                                                    lambda c: (S.SymReal(c[0]), S.SymReal(c[1])),
                                                    lambda x: [seq.SymDict._key(x[0]), seq.SymDict._key(x[1])]),
        }
        pre = [N >= 0, Mn >= 0, rank(0) == 0, cnt(0) == 0]
        ends = it.run({"molecule": molecule, "restrictions": restrictions}, pre=pre)
    except (pyvc.PyvcUnsupported, S.SymError) as e:
        return [ob(f"{tag}/vc-generation", "undecided", engine="pyvc", reason=f"outside the pyvc subset: {type(e).__name__}: {e}")]
    out.append(ob(f"{tag}/vc-generation", "discharged" if it.obls and ends else "undecided", engine="pyvc", backend="ast",
                  sample={"obligations": len(it.obls), "exit_paths": len(ends), "source": it.path}))
    cex = {"fn": "remove_hydrogens", "signature": "loop-obligation"}
    for o in it.obls:
        v = discharge(o.name, o.hyps, o.goal, backends=("z3",), engine="pyvc", timeout_ms=30000, seed=seed,
                      sample={"goal": core.short(o.goal, 160), "n_hyps": len(o.hyps)})
        if v["status"] == "refuted":
            v["cex"] = dict(cex, obligation=o.name)
        out.append(v)
    i, u = z3.Int("i!p"), z3.Int("u!p")
    for ei, e in enumerate(ends):
        if e.sig != pyvc.RETURN or not isinstance(e.val, tuple) or len(e.val) != 2:
            out.append(ob(f"{tag}/exit{ei}/returns_pair", "refuted" if e.sig == pyvc.RETURN else "undecided", engine="pyvc",
                          reason=f"exit signal {e.sig}", cex=dict(cex, signature="return-shape") if e.sig == pyvc.RETURN else None))
            continue
        pos, res = e.val
        if not isinstance(pos, seq.SymList) or not isinstance(res, seq.SymList) or len(res.arrays) != 2:
            out.append(ob(f"{tag}/exit{ei}/returns_positions_and_restraints", "refuted", engine="pyvc", cex=dict(cex, signature="return-shape")))
            continue
        hy = e.pc
        posts = {
            "ensures.positions_are_the_non_hydrogen_atoms_in_order":
                z3.And(pos.length == rank(N),
                       z3.ForAll([i], z3.Implies(z3.And(i >= 0, i < N, z3.Not(IsH(i))),
                                                 z3.And(rank(i) >= 0, rank(i) < pos.length, z3.Select(pos.arrays[0], rank(i)) == PosF(i))))),
            "ensures.kept_restraints_in_order_designate_the_same_two_atoms":
                z3.And(res.length == cnt(Mn),
                       z3.ForAll([u], z3.Implies(z3.And(u >= 0, u < Mn, keep(u)),
                                                 z3.And(cnt(u) >= 0, cnt(u) < res.length, z3.Select(res.arrays[0], cnt(u)) == rank(R1(u)),
                                                        z3.Select(res.arrays[1], cnt(u)) == R2(u))))),
        }
        for nm, goal in posts.items():
            v = discharge(f"{tag}/exit{ei}/{nm}", hy, goal, backends=("z3",), engine="pyvc", timeout_ms=30000)
            if v["status"] == "refuted":
                v["cex"] = dict(cex, signature=nm)
            out.append(v)
        out.append(core.must_fail(f"{tag}/exit{ei}/guard.must-fail", hy, res.length == Mn, engine="pyvc", timeout_ms=10000))
    return out


# ---------------------------------------------------------------------------
# _split_list


def task_split_list(seed, kmax=40):
    tag = f"{PROP}/_split_list"
    try:
        fn, src, path = pyvc.load_function(REL, "_split_list")
    except pyvc.PyvcUnsupported as e:
        return [ob(f"{tag}/extraction", "undecided", engine="pyvc", reason=str(e))]
    # the function must be:  length = len(alist); return [alist[LO : HI] for i in range(wanted_parts)]
    ret = [n for n in ast.walk(fn) if isinstance(n, ast.Return)]
    comp = ret[0].value if ret and isinstance(ret[0].value, ast.ListComp) else None
    okshape = (comp is not None and len(comp.generators) == 1 and isinstance(comp.elt, ast.Subscript) and isinstance(comp.elt.slice, ast.Slice)
               and comp.elt.slice.step is None and isinstance(comp.generators[0].iter, ast.Call)
               and ast.unparse(comp.generators[0].iter) == "range(wanted_parts)" and isinstance(comp.generators[0].target, ast.Name))
    if not okshape:
        return [ob(f"{tag}/extraction", "undecided", engine="pyvc", reason="_split_list is no longer a comprehension of slices over range(wanted_parts)")]
    ivar = comp.generators[0].target.id
    lo_e, hi_e = comp.elt.slice.lower, comp.elt.slice.upper
    L = z3.Int("L")
    out = []
    bad = None
    n_vc = 0
    t_total = 0.0
    for k in range(1, kmax + 1):
        it = pyvc.Interp(REL, "_split_list", {}, {}, tag)
        bounds, raw = [], []
        for i in range(k):
            st = pyvc.St()
            st.env.update({"length": S.SymReal(L), "wanted_parts": k, ivar: i, "alist": None})
            try:
                with S.active(S.Ctx()):
                    lo = it.ev(lo_e, st) if lo_e is not None else 0
                    hi = it.ev(hi_e, st) if hi_e is not None else S.SymReal(L)
            except (pyvc.PyvcUnsupported, S.SymError) as e:
                return [ob(f"{tag}/vc-generation", "undecided", engine="pyvc", reason=f"{type(e).__name__}: {e}")]
            tl = S._num(lo) if not isinstance(lo, int) else z3.IntVal(lo)
            th = S._num(hi) if not isinstance(hi, int) else z3.IntVal(hi)
            # Python slice semantics for non-negative bounds: both are clamped to the list length
            clamp = lambda x: z3.If(x > L, L, x)
            bounds.append((clamp(tl), clamp(th)))
            raw.append((tl, th))
        pre = [L >= k]
        goals = [bounds[0][0] == 0, bounds[-1][1] == L]
        goals += [bounds[i][1] == bounds[i + 1][0] for i in range(k - 1)]       # contiguous, in order
        goals += [bounds[i][0] < bounds[i][1] for i in range(k)]               # non-empty
        goals += [z3.And(b[0] >= 0, b[1] >= 0) for b in raw]                  # no negative (wrap-around) slice bounds
        v = discharge(f"{tag}/ensures.k_contiguous_nonempty_parts_covering_the_list/k={k}", pre, z3.And(*goals), backends=("z3",), engine="pyvc",
                      timeout_ms=20000, cex_builder=lambda m, k=k: {"fn": "split", "k": k, "L": int(m.get("L", "0")), "signature": "split"})
        n_vc += 1
        t_total += v.get("secs", 0.0)
        if v["status"] != "discharged" and bad is None:
            bad = v
    if bad is not None:
        out.append(bad)
    else:
        out.append(ob(f"{tag}/ensures.k_contiguous_nonempty_parts_covering_the_list/k=1..{kmax},all_lengths", "discharged", engine="pyvc", backend="z3",
                      secs=t_total, evaluations=n_vc, nontrivial=n_vc, sample={"lower": ast.unparse(lo_e) if lo_e else "0", "upper": ast.unparse(hi_e) if hi_e else "len"}))
    out.append(core.must_fail(f"{tag}/guard.must-fail", [L >= 3], bounds[0][1] == 1, engine="pyvc"))
    return out


def tasks(prop, tier, seed):
    from . import d10_protein_vc as D
    t = [("remove_hydrogens/pyvc", task_remove_hydrogens, (seed,), 900.0), ("_split_list/pyvc", task_split_list, (seed,), 900.0)]
    t += list(D.deductive_tasks(prop, tier, seed))
    t += b10_routing.bounded_tasks(prop, tier, seed)
    return t


def replay(prop, cex):
    if str(cex.get("fn", "")).startswith("b10:"):
        return b10_routing.replay(prop, cex)
    if cex.get("fn") == "d10:vc":
        # a failed obligation of guess_protein_restrains: look for failing residue layouts in the bounded scope of the real function
        for name, fn, args, _lim in [t for t in b10_routing.bounded_tasks(prop, "quick", 0) if t[0].startswith("b10/protein")][:4]:
            try:
                obs = fn(*args)
            except Exception:
                continue
            for o in obs:
                if o.get("status") == "refuted" and o.get("kind") != "guard" and o.get("cex"):
                    r = b10_routing.replay(prop, o["cex"])
                    if r and r.get("reproduced"):
                        r["note"] = f"failed obligation {cex.get('clause') or cex.get('obligation')} manifests on the real guess_protein_restrains"
                        return r
        return {"reproduced": False, "inputs": cex, "note": "no failing residue layout found in the bounded scope"}
    import gaddlemaps._alignment as A
    if cex.get("fn") == "split":
        for k in [cex["k"]] + list(range(1, 9)):
            for L in [cex.get("L", 0)] + list(range(k, k + 40)):
                if L < k:
                    continue
                parts = A._split_list(list(range(L)), k)
                ok = len(parts) == k and all(parts) and sum(parts, []) == list(range(L))
                if not ok:
                    return {"reproduced": True, "observed": parts, "inputs": {"L": L, "k": k}}
        return {"reproduced": False, "inputs": cex}
    if cex.get("fn") == "remove_hydrogens":
        # exhaustive small scope on the real function: every hydrogen mask on <= 4 atoms, every restraint list of length <= 2
        import itertools

        class FakeAtom:
            def __init__(self, h, i):
                self.element = "H" if h else "C"
                self.position = np.array([float(i), 0.5 * i, -1.0 * i])
        for n in range(0, 5):
            for mask in itertools.product([False, True], repeat=n):
                mol = [FakeAtom(h, i) for i, h in enumerate(mask)]
                pairs = [(i, j) for i in range(n) for j in range(2)]
                for r in [()] + [(p,) for p in pairs] + [(p, q) for p in pairs for q in pairs]:
                    try:
                        pos, res = A.remove_hydrogens(mol, list(r))
                    except Exception as e:
                        return {"reproduced": True, "observed": f"raises {type(e).__name__}: {e}", "inputs": {"mask": mask, "restraints": r}}
                    heavy = [i for i in range(n) if not mask[i]]
                    exp_pos = [mol[i].position for i in heavy]
                    exp_res = [(heavy.index(i), j) for (i, j) in r if not mask[i]]
                    if len(pos) != len(exp_pos) or any(not np.array_equal(a, b) for a, b in zip(pos, exp_pos)) or [tuple(x) for x in res] != exp_res:
                        return {"reproduced": True, "observed": {"positions": np.asarray(pos).tolist(), "restraints": [list(x) for x in res]},
                                "expected": {"restraints": exp_res}, "inputs": {"hydrogen_mask": mask, "restraints": r}}
        return {"reproduced": False, "inputs": cex}
    return {"reproduced": False, "inputs": cex}
