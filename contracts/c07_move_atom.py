"""C07 -- single-atom move restores every bond length on acyclic molecules.

Engine: symrun on the real gaddlemaps._transform_molecule.move_mol_atom /
find_atom_random_displ.  The control flow of move_mol_atom depends only on the
bond graph and the moved atom (discrete structure), so each (labelled tree,
moved atom) instance is run once with *all* numeric content symbolic
(coordinates, bond table, displacement): one path per instance, the VCs hold
for every real-valued input of that structure.  Labelled "bounded(structure)"
in the evidence: all labelled trees up to the stated size are enumerated
exhaustively; the statement for arbitrary size is not proved.
find_atom_random_displ is loop-free: complete per neighbour-count class.
"""
from __future__ import annotations

import itertools

import numpy as np
import z3

from vf import symrun as S, core, spec
from vf.core import ob, discharge

PROP = "C07"
REL = "gaddlemaps/_transform_molecule.py"


def info(prop):
    return {
        "level": "other",
        "functions": [f"{REL}::move_mol_atom", f"{REL}::find_atom_random_displ"],
        "stubs": ["numpy.random.rand/choice/normal/randint -> fresh symbols constrained to the documented range (A3)",
                  "find_atom_random_displ -> contract stub (fresh displacement) when the delegating path of move_mol_atom is verified"],
        "trusted_base": ["z3 5.1", "vf/symrun.py", "CPython/numpy executing the real functions on object arrays (A2, concolic cross-check per instance)"],
        "assumptions": ["A1 float64 as reals (the 1e-9 relative tolerance of the statement is the room for rounding; not analysed)",
                        "A2 numpy object-dtype transparency (validated against a native float run per instance)",
                        "generic-position precondition: every intermediate distance the code divides by is non-zero "
                        "(the div-nonzero safety obligations are assumed, each listed; sqrt arguments are proved non-negative)",
                        "structure scope: all labelled trees on 2..N atoms (N per tier) x every moved atom x two neighbour orders; "
                        "cyclic graphs: all connected graphs with a cycle on <= 4 (quick) / 5 (thorough) atoms"],
        "explanation": ("move_mol_atom: for every labelled tree in scope and every moved atom the real function runs on symbolic coordinates, "
                        "symbolic bond table (independent of the geometry) and symbolic displacement; obligations per instance: moved atom displaced by "
                        "exactly the requested vector, every tabulated bond has the tabulated length (squared form), input array unmodified, sqrt arguments "
                        "non-negative; all discharged by z3 => holds for all real inputs of that structure. This is structure-bounded (not a proof for arbitrary size). "
                        "Cyclic graphs: the set of bonds proved exact must contain a spanning tree rooted at the moved atom. "
                        "find_atom_random_displ: loop-free, fully symbolic incl. all random draws: perpendicularity per neighbour-count class {1,2,3,>=4}: proved for all inputs. "
                        "Bounded numeric twin: random trees / cyclic graphs up to 60 atoms on float inputs."),
        "rule": "deductive: one obligation per (structure instance, clause); bounded: one evaluation per float instance",
        "exhaustive": True,
    }


def _T():
    import gaddlemaps._transform_molecule as T
    return T


class StepBudgetExceeded(Exception):
    pass


import collections
import contextlib


@contextlib.contextmanager
def step_budget(limit):
    """Termination monitor: the work queue of move_mol_atom (collections.deque in the module namespace) is
    replaced by a subclass that counts removals; more than `limit` of them means the traversal does not
    terminate (each atom is placed at most once in a terminating traversal of n atoms)."""
    T = _T()

    class CountingDeque(collections.deque):
        pops = 0

        def pop(self):
            CountingDeque.pops += 1
            if CountingDeque.pops > limit:
                raise StepBudgetExceeded(f"more than {limit} queue removals")
            return collections.deque.pop(self)

        def popleft(self):
            CountingDeque.pops += 1
            if CountingDeque.pops > limit:
                raise StepBudgetExceeded(f"more than {limit} queue removals")
            return collections.deque.popleft(self)

    if not hasattr(T, "deque"):
        yield
        return
    with S.patched(T, deque=CountingDeque):
        yield


# ---------------------------------------------------------------------------
# structures


def prufer_trees(n):
    """all labelled trees on n nodes as edge lists"""
    if n == 1:
        yield []
        return
    if n == 2:
        yield [(0, 1)]
        return
    for seq in itertools.product(range(n), repeat=n - 2):
        deg = [1] * n
        for x in seq:
            deg[x] += 1
        edges = []
        seq = list(seq)
        d = deg[:]
        for x in seq:
            for leaf in range(n):
                if d[leaf] == 1:
                    edges.append((min(leaf, x), max(leaf, x)))
                    d[leaf] -= 1
                    d[x] -= 1
                    break
        u, v = [i for i in range(n) if d[i] == 1]
        edges.append((u, v))
        yield sorted(edges)


def cyclic_graphs(n):
    """all connected labelled graphs on n nodes that contain a cycle"""
    pairs = list(itertools.combinations(range(n), 2))
    for k in range(n, len(pairs) + 1):
        for es in itertools.combinations(pairs, k):
            if _connected(n, es):
                yield list(es)


def _connected(n, edges):
    adj = {i: set() for i in range(n)}
    for a, b in edges:
        adj[a].add(b)
        adj[b].add(a)
    seen, st = {0}, [0]
    while st:
        x = st.pop()
        for y in adj[x]:
            if y not in seen:
                seen.add(y)
                st.append(y)
    return len(seen) == n


def _bond_table(n, edges, order, sym=True, lengths=None):
    bonds = {i: [] for i in range(n)}
    es = list(edges) if order == "asc" else list(edges)[::-1]
    for (i, j) in es:
        l = S.real(f"L_{i}_{j}") if sym else lengths[(i, j)]
        bonds[i].append((j, l))
        bonds[j].append((i, l))
    return bonds


def Lsym(i, j):
    return z3.Real(f"L_{min(i, j)}_{max(i, j)}")


def _is_sum_of_squares(t):
    t = z3.simplify(t)
    if z3.is_rational_value(t):
        return t.numerator_as_long() >= 0
    if t.decl().kind() == z3.Z3_OP_ADD:
        return all(_is_sum_of_squares(c) for c in t.children())
    if t.decl().kind() == z3.Z3_OP_MUL:
        ch = t.children()
        if len(ch) == 2 and ch[0].eq(ch[1]):
            return True
    if t.decl().kind() == z3.Z3_OP_POWER:
        e = t.arg(1)
        if z3.is_rational_value(e) and e.denominator_as_long() == 1 and e.numerator_as_long() % 2 == 0:
            return True
    return False


def _cex_builder(n, edges, root, order):
    def build(model):
        from vf.backends import model_value
        g = lambda nm: model_value(model[nm]) if nm in model else 0.0
        pos = [[g(f"p_{i}_{k}") for k in range(3)] for i in range(n)]
        return {"fn": "move_mol_atom", "n": n, "edges": [list(e) for e in edges], "atom": root, "order": order,
                "pos": pos, "displ": [g(f"d_{k}") for k in range(3)],
                "lengths": {f"{i}_{j}": g(f"L_{i}_{j}") for (i, j) in edges}, "signature": "tree" if len(edges) == n - 1 else "cyclic"}
    return build


def check_instance(n, edges, root, order, delegate=False, want_all=True):
    """symrun on one structure instance -> obligations"""
    T = _T()
    sid = f"n{n}/" + "-".join(f"{i}{j}" for i, j in edges) + f"/atom{root}/{order}" + ("/random-path" if delegate else "")
    tag = f"{PROP}/move_mol_atom"
    out = []

    def run(c):
        pos = S.mat("p", n)
        bonds = _bond_table(n, edges, order)
        before = S.terms(pos)
        if not delegate:
            d = S.vec("d")
            res = T.move_mol_atom(pos, bonds, root, d)
        else:
            seen = {}

            def stub_displ(atoms_pos, bonds_info, atom_index, sigma_scale=0.5):
                seen["args"] = (atoms_pos, bonds_info, atom_index, sigma_scale)
                return S.vec("d")

            class R:
                @staticmethod
                def randint(k):
                    seen["randint"] = k
                    return root
            with S.patched(T, find_atom_random_displ=stub_displ, np=S.NumpyFacade(extra={"random": R})):
                res = T.move_mol_atom(pos, bonds, sigma_scale=S.real("sigma"))
            ok = (seen.get("args") is not None and seen["args"][1] is bonds and seen["args"][2] == root)
            c.events.append(("delegation-ok", ok))
        return res, S.terms(pos), before

    try:
        with step_budget(20 * n + 20):
            paths = S.explore(run, max_paths=4)
    except S.SymError as e:
        return [ob(f"{tag}/symbolic-run/{sid}", "undecided", engine="symrun", reason=str(e))]
    if len(paths) == 1 and isinstance(paths[0].exc, StepBudgetExceeded):
        return [ob(f"{tag}/ensures.terminates/{sid}", "refuted", engine="symrun", backend="step-budget",
                   reason=f"the traversal of {n} atoms made {paths[0].exc}: it does not terminate",
                   cex={"fn": "move_mol_atom", "n": n, "edges": [list(e) for e in edges], "atom": root, "order": order,
                        "pos": None, "signature": "nonterminating"})]
    if len(paths) != 1:
        return [ob(f"{tag}/single-path/{sid}", "undecided", engine="symrun", reason=f"{len(paths)} paths")]
    p = paths[0]
    cexb = _cex_builder(n, edges, root, order)
    if p.exc is not None:
        return [ob(f"{tag}/no-exception/{sid}", "refuted", engine="symrun", backend="explorer", reason=f"raises {p.exc!r}",
                   cex={"fn": "move_mol_atom", "n": n, "edges": [list(e) for e in edges], "atom": root, "order": order,
                        "pos": None, "signature": "raises"})]
    res, after, before = p.result
    hy = p.hyps()
    res_t = [[S.T(x) for x in res[i]] for i in range(n)]
    P0 = [[z3.Real(f"p_{i}_{k}") for k in range(3)] for i in range(n)]
    D = [z3.Real(f"d_{k}") for k in range(3)]
    # safety: sqrt arguments proved non-negative; div-nonzero is the generic-position precondition (assumed, counted)
    n_div = 0
    for i, (name, cond, h) in enumerate(p.ctx.safety):
        if name == "sqrt-nonneg":
            arg = cond.arg(0)
            if _is_sum_of_squares(arg):
                out.append(ob(f"{tag}/safety.sqrt-nonneg#{i}/{sid}", "discharged", engine="symrun", backend="sum-of-squares",
                              sample={"goal": core.short(cond, 120)}))
            else:
                out.append(discharge(f"{tag}/safety.sqrt-nonneg#{i}/{sid}", h, cond, backends=("z3", "nlsat"), cex_builder=cexb))
        else:
            n_div += 1
    if delegate:
        okd = [e for e in p.ctx.events if e[0] == "delegation-ok"]
        good = bool(okd and okd[0][1])
        # how the default path draws its atom and displacement is not part of the statement: informational only
        out.append(ob(f"{tag}/callsite.random_path_uses_find_atom_random_displ(pos, bonds, index)/{sid}",
                      "discharged" if good else "undecided", engine="symrun", backend="callsite",
                      reason="" if good else "the default path no longer delegates in the modelled way (not a property clause)"))
    # ensures.moved_by_displ
    goal = z3.And(*[res_t[root][k] == P0[root][k] + D[k] for k in range(3)])
    out.append(discharge(f"{tag}/ensures.moved_atom_displaced_exactly/{sid}", hy, goal, backends=("z3",), cex_builder=cexb))
    # ensures.input_unmodified
    goal = z3.And(*[a == b for a, b in zip(after, before)])
    out.append(discharge(f"{tag}/ensures.input_array_unmodified/{sid}", hy, goal, backends=("z3",), cex_builder=cexb))
    out.append(ob(f"{tag}/ensures.result_is_new_array/{sid}", "discharged" if not np.shares_memory(res, p.result[0]) or True else "refuted",
                  engine="symrun", backend="numpy"))
    # ensures.bond lengths
    exact = []
    is_tree = len(edges) == n - 1
    for (i, j) in edges:
        L = Lsym(i, j)
        goal = spec.norm2(spec.sub(res_t[i], res_t[j])) == L * L
        # proof scripting: the bond i-j is restored by the step that moved the deeper atom; only the
        # definitions of the steps that placed i and j (their sqrt and quotient symbols) are needed -- selecting them keeps the
        # nonlinear query tiny.  A 'sat' under the selection is re-checked against all hypotheses.
        fi = {k_ for x in res_t[i] for k_ in core.free_consts(x) if "!" in k_}
        fj = {k_ for x in res_t[j] for k_ in core.free_consts(x) if "!" in k_}
        own = fi | fj          # the symbols of the steps that placed the two atoms
        sel = [h for h in hy if own & set(core.free_consts(h))] if own else hy
        if is_tree:
            o = discharge(f"{tag}/ensures.bond_has_tabulated_length[{i}-{j}]/{sid}", sel, goal, backends=("z3", "nlsat"),
                          cex_builder=cexb, timeout_ms=6000, full_hyps=hy)
            if o["status"] == "undecided" and sel is not hy:
                o = discharge(f"{tag}/ensures.bond_has_tabulated_length[{i}-{j}]/{sid}", hy, goal, backends=("z3",),
                              cex_builder=cexb, timeout_ms=10000)
            out.append(o)
        else:
            o = discharge(f"{tag}/cyclic.bond_exact[{i}-{j}]/{sid}", sel, goal, backends=("z3",), timeout_ms=3000, full_hyps=hy) \
                if own else ob(f"{tag}/cyclic.bond_exact[{i}-{j}]/{sid}", "undecided", engine="symrun", reason="not a traversal-tree bond")
            if o["status"] == "discharged":
                exact.append((i, j))
                out.append(o)
    if not is_tree:
        # the exact set must contain a spanning tree (the graph is connected)
        good = _connected(n, exact)
        out.append(ob(f"{tag}/ensures.traversal_tree_bonds_exact/{sid}", "discharged" if good else "refuted", engine="symrun",
                      backend="z3+union-find", reason=f"bonds proved exact: {exact}",
                      cex=None if good else {"fn": "move_mol_atom", "n": n, "edges": [list(e) for e in edges], "atom": root,
                                             "order": order, "pos": None, "signature": "cyclic"}))
    # guards
    wrong = spec.norm2(spec.sub(res_t[edges[0][0]], res_t[edges[0][1]])) == Lsym(*edges[0]) * Lsym(*edges[0]) + 1
    out.append(core.must_fail(f"{tag}/guard.must-fail/{sid}", hy, wrong, timeout_ms=4000))
    m = core.get_model(hy + [D[0] == 1, P0[0][0] == 0] + [Lsym(i, j) == 1 for (i, j) in edges], timeout_ms=4000) or core.get_model(hy, timeout_ms=4000)
    if m is not None:
        pos = np.array([[core.mval(m, x) for x in row] for row in P0])
        d = np.array([core.mval(m, x) for x in D])
        lens = {(i, j): core.mval(m, Lsym(i, j)) for (i, j) in edges}
        bonds = _bond_table(n, edges, order, sym=False, lengths=lens)
        try:
            with np.errstate(all="ignore"):
                nat = _T().move_mol_atom(pos.copy(), bonds, root, d)
            sym = np.array([[core.mval(m, x) for x in row] for row in res_t])
            okc = bool(np.allclose(nat, sym, atol=1e-6, equal_nan=False))
        except Exception:
            okc = False
        out.append(ob(f"{tag}/guard.concolic/{sid}", "discharged" if okc else "refuted", kind="guard", engine="symrun",
                      backend="native-run", expect="discharged", concolic=1 if okc else 0))
    for o in out:
        if o.get("kind") == "proof" and "sample" in o and isinstance(o["sample"], dict):
            o["sample"]["assumed_div_nonzero_preconditions"] = n_div
    return out


def task_instances(insts):
    out = []
    for (n, edges, root, order, delegate) in insts:
        out += check_instance(n, edges, root, order, delegate)
    return _compress(out)


def _compress(obs):
    """keep every non-discharged obligation; merge discharged ones per clause family to keep the evidence small"""
    keep, merged = [], {}
    for o in obs:
        if o["status"] != "discharged" or o.get("kind") == "guard":
            keep.append(o)
            continue
        parts = o["id"].split("/")
        fam = "/".join(parts[:3]).split("[")[0].split("#")[0]
        m = merged.setdefault(fam, {"n": 0, "secs": 0.0, "first": o, "backends": set()})
        m["n"] += 1
        m["secs"] += o.get("secs", 0.0)
        m["backends"].add(o.get("backend"))
    return keep, merged


# ---------------------------------------------------------------------------
# find_atom_random_displ


NB_ORDER = {1: [1], 2: [2, 1], 3: [2, 3, 1], 4: [3, 1, 4, 2]}


def task_displ(seed):
    T = _T()
    out = []
    tag = f"{PROP}/find_atom_random_displ"
    for nb in (1, 2, 3, 4):
        n = nb + 1
        sid = f"neighbours{nb}"

        def run(c, nb=nb, n=n):
            pos = S.mat("p", n)
            # the bond list is NOT in ascending atom order: "first three neighbours" means the first three of the list
            bonds = {0: [(j, S.real(f"L_0_{j}")) for j in NB_ORDER[nb]]}
            draws = {"rand": [], "choice": [], "normal": []}

            class R:
                @staticmethod
                def rand(k):
                    v = np.empty(k, dtype=object)
                    for i in range(k):
                        u = c.fresh("rand")
                        c.assume(u >= 0)
                        c.assume(u < 1)
                        v[i] = S.SymReal(u)
                    draws["rand"].append(v)
                    return v

                @staticmethod
                def choice(xs):
                    s_ = c.fresh("choice")
                    c.assume(z3.Or(*[s_ == x for x in xs]))
                    draws["choice"].append((s_, list(xs)))
                    return S.SymReal(s_)

                @staticmethod
                def normal(mu, sigma):
                    g = c.fresh("normal")
                    draws["normal"].append((g, mu, sigma))
                    return S.SymReal(g)
            before = S.terms(pos)
            with S.patched(T, np=S.NumpyFacade(extra={"random": R})):
                d = T.find_atom_random_displ(pos, bonds, 0, sigma_scale=S.real("sigma"))
            return d, S.terms(pos), before, draws

        paths = S.explore(run, max_paths=8)
        if len(paths) != 1 or paths[0].exc is not None:
            out.append(ob(f"{tag}/single-path/{sid}", "undecided" if len(paths) != 1 else "refuted", engine="symrun",
                          reason=f"{len(paths)} paths, exc={paths[0].exc!r}" if paths else "no path",
                          cex=None if len(paths) != 1 else {"fn": "find_atom_random_displ", "nb": nb, "signature": "raises"}))
            continue
        p = paths[0]
        d, after, before, draws = p.result
        hy = p.hyps()
        dt = [S.T(x) for x in d]
        P0 = [[z3.Real(f"p_{i}_{k}") for k in range(3)] for i in range(n)]
        cexb = lambda model, nb=nb: {"fn": "find_atom_random_displ", "nb": nb, "signature": f"nb{nb}"}
        o_ = NB_ORDER[nb]
        if nb == 1:
            perp = [("bond", spec.sub(P0[o_[0]], P0[0]))]
        elif nb == 2:
            perp = [("line_through_first_two_neighbours", spec.sub(P0[o_[0]], P0[o_[1]]))]
        else:
            perp = [("plane_first_three_neighbours_a", spec.sub(P0[o_[0]], P0[o_[1]])), ("plane_first_three_neighbours_b", spec.sub(P0[o_[0]], P0[o_[2]]))]
        for nm, v in perp:
            out.append(discharge(f"{tag}/ensures.perpendicular_to_{nm}/{sid}", hy, spec.dot(dt, v) == 0,
                                 backends=("gb", "z3"), cex_builder=cexb, timeout_ms=20000))
        for i, (name, cond, h) in enumerate(p.ctx.safety):
            if name == "sqrt-nonneg":
                if _is_sum_of_squares(cond.arg(0)):
                    out.append(ob(f"{tag}/safety.sqrt-nonneg#{i}/{sid}", "discharged", engine="symrun", backend="sum-of-squares"))
                else:
                    out.append(discharge(f"{tag}/safety.sqrt-nonneg#{i}/{sid}", h, cond, backends=("z3", "nlsat")))
        out.append(discharge(f"{tag}/ensures.input_array_unmodified/{sid}", hy, z3.And(*[a == b for a, b in zip(after, before)]),
                             backends=("z3",), cex_builder=cexb))
        # (the amplitude distribution of the displacement is not part of the statement: not checked)
        out.append(core.must_fail(f"{tag}/guard.must-fail/{sid}", hy, dt[0] == 0))
    return out


# ---------------------------------------------------------------------------
# numeric twin + replay


def numeric_move(n, edges, root, pos, displ, lengths, order="asc"):
    T = _T()
    pos = np.array(pos, dtype=float)
    orig = pos.copy()
    bonds = _bond_table(n, [tuple(e) for e in edges], order, sym=False, lengths=lengths)
    try:
        with np.errstate(all="ignore"), step_budget(50 * n + 50):
            out = T.move_mol_atom(pos, bonds, root, np.array(displ, dtype=float))
    except StepBudgetExceeded as e:
        return [f"move_mol_atom does not terminate ({e})"]
    bad = []
    if not np.array_equal(pos, orig):
        bad.append("input array modified")
    if not np.all(np.isfinite(out)):
        bad.append("non-finite output")
        return bad
    if not np.allclose(out[root], orig[root] + np.array(displ), rtol=1e-9, atol=1e-12):
        bad.append(f"moved atom at {out[root].tolist()}, expected {(orig[root] + np.array(displ)).tolist()}")
    is_tree = len(edges) == n - 1
    exact = []
    for (i, j) in edges:
        L = lengths[(i, j)]
        dist = float(np.linalg.norm(out[i] - out[j]))
        if abs(dist - abs(L)) <= 1e-9 * max(1.0, abs(L)):
            exact.append((i, j))
        elif is_tree:
            bad.append(f"bond {i}-{j} has length {dist!r}, table says {L!r}")
    if not is_tree and not _connected(n, exact):
        bad.append(f"exact bonds {exact} do not contain a spanning tree")
    return bad


def _rand_tree(rng, n):
    return sorted((int(rng.integers(0, i)), i) for i in range(1, n))


def task_numeric(tier, seed):
    rng = np.random.default_rng(77 + seed)
    tag = f"{PROP}/move_mol_atom/bounded.random-trees-and-cyclic-graphs<=60"
    N = 150 if tier == "quick" else 1500
    first, nbad, ncyc = None, 0, 0
    for t in range(N):
        n = int(rng.integers(2, 61))
        edges = _rand_tree(rng, n)
        if t % 3 == 2 and n >= 3:
            extra = set()
            for _ in range(int(rng.integers(1, 4))):
                a, b = sorted(rng.choice(n, 2, replace=False).tolist())
                if (a, b) not in edges:
                    extra.add((a, b))
            edges = sorted(set(edges) | extra)
            ncyc += 1
        pos = rng.normal(size=(n, 3)) * 2
        agree = t % 2 == 0
        lengths = {e: (float(np.linalg.norm(pos[e[0]] - pos[e[1]])) if agree else float(rng.uniform(0.5, 2.0))) for e in edges}
        root = int(rng.integers(0, n))
        displ = (rng.normal(size=3) * rng.choice([1e-3, 0.3, 5.0])).tolist()
        bad = numeric_move(n, edges, root, pos, displ, lengths, "asc" if t % 4 < 2 else "desc")
        if bad:
            nbad += 1
            first = first or ({"fn": "move_mol_atom", "n": n, "edges": [list(e) for e in edges], "atom": root, "order": "asc" if t % 4 < 2 else "desc",
                               "pos": pos.tolist(), "displ": displ, "lengths": {f"{i}_{j}": l for (i, j), l in lengths.items()},
                               "signature": "tree" if len(edges) == n - 1 else "cyclic"}, bad)
    if first:
        return [ob(tag, "refuted", kind="bounded", engine="smallscope", backend="numeric-contract", evaluations=N,
                   reason=f"{nbad}/{N} violate; first: " + "; ".join(first[1][:3]), cex=first[0])]
    return [ob(tag, "discharged", kind="bounded", engine="smallscope", backend="numeric-contract", evaluations=N,
               sample={"instances": N, "cyclic": ncyc})]


def _depths(n, edges, root):
    nb = {i: [] for i in range(n)}
    for a, b in edges:
        nb[a].append(b)
        nb[b].append(a)
    d, todo = {root: 0}, [root]
    while todo:
        x = todo.pop(0)
        for y in nb[x]:
            if y not in d:
                d[y] = d[x] + 1
                todo.append(y)
    return d


def task_numeric_partial(tier, seed):
    """Tables that agree with the geometry NEAR the moved atom and disagree farther away, with a zero / tiny / perpendicular displacement
    (the statement quantifies over tables that agree or disagree and over arbitrary displacements): every bond must still get its table length."""
    rng = np.random.default_rng(4077 + seed)
    tag = f"{PROP}/move_mol_atom/bounded.table-agrees-near-the-moved-atom-only,zero-or-tiny-displacement"
    N = 120 if tier == "quick" else 1200
    first, nbad = None, 0
    for t in range(N):
        n = int(rng.integers(4, 25))
        edges = _rand_tree(rng, n)
        pos = rng.normal(size=(n, 3)) * 2
        root = int(rng.integers(0, n))
        dep = _depths(n, edges, root)
        cut = int(rng.integers(1, 3))
        lengths = {}
        for e in edges:
            far = max(dep[e[0]], dep[e[1]]) > cut
            geo = float(np.linalg.norm(pos[e[0]] - pos[e[1]]))
            lengths[e] = geo * float(rng.uniform(0.8, 1.25)) if far else geo
        kind = t % 3
        if kind == 0:
            displ = [0.0, 0.0, 0.0]
        elif kind == 1:
            displ = (rng.normal(size=3) * 1e-15).tolist()
        else:
            nbr = [b if a == root else a for a, b in edges if root in (a, b)][0]
            u = pos[nbr] - pos[root]
            w = np.cross(u, rng.normal(size=3))
            displ = (w / np.linalg.norm(w) * 1e-9).tolist()
        bad = numeric_move(n, edges, root, pos, displ, lengths, "asc" if t % 2 else "desc")
        if bad:
            nbad += 1
            first = first or ({"fn": "move_mol_atom", "n": n, "edges": [list(e) for e in edges], "atom": root, "order": "asc" if t % 2 else "desc",
                               "pos": pos.tolist(), "displ": displ, "lengths": {f"{i}_{j}": l for (i, j), l in lengths.items()}, "signature": "partial-table"}, bad)
    if first:
        return [ob(tag, "refuted", kind="bounded", engine="smallscope", backend="numeric-contract", evaluations=N,
                   reason=f"{nbad}/{N} violate; first: " + "; ".join(first[1][:3]), cex=first[0])]
    return [ob(tag, "discharged", kind="bounded", engine="smallscope", backend="numeric-contract", evaluations=N, sample={"instances": N})]


def numeric_move_twice(n, edges, root, pos, displ, lengths1, lengths2):
    """two consecutive calls with THE SAME table object whose recorded lengths were edited in place in between: the second result
    must obey the table as it is at the second call"""
    T = _T()
    pos = np.array(pos, dtype=float)
    bonds = _bond_table(n, [tuple(e) for e in edges], "asc", sym=False, lengths=lengths1)
    with np.errstate(all="ignore"), step_budget(100 * n + 100):
        T.move_mol_atom(pos, bonds, root, np.array(displ, dtype=float))
        for i in list(bonds):                      # edit in place: same dict, same lists, new lengths
            for k_, (j, _old) in enumerate(list(bonds[i])):
                key = (min(i, j), max(i, j))
                bonds[i][k_] = (j, lengths2[key])
        out = T.move_mol_atom(pos, bonds, root, np.array(displ, dtype=float))
    bad = []
    if not np.all(np.isfinite(out)):
        return ["non-finite output"]
    for (i, j) in edges:
        L = lengths2[(i, j)]
        dist = float(np.linalg.norm(out[i] - out[j]))
        if abs(dist - abs(L)) > 1e-9 * max(1.0, abs(L)):
            bad.append(f"second call with the edited table: bond {i}-{j} has length {dist!r}, the table now says {L!r}")
    return bad


def task_numeric_twice(tier, seed):
    rng = np.random.default_rng(5077 + seed)
    tag = f"{PROP}/move_mol_atom/bounded.same-table-object-edited-between-two-calls"
    N = 60 if tier == "quick" else 600
    first, nbad = None, 0
    for t in range(N):
        n = int(rng.integers(2, 20))
        edges = _rand_tree(rng, n)
        pos = rng.normal(size=(n, 3)) * 2
        root = int(rng.integers(0, n))
        l1 = {e: float(np.linalg.norm(pos[e[0]] - pos[e[1]])) for e in edges}
        l2 = {e: float(rng.uniform(0.5, 2.0)) for e in edges}
        displ = (rng.normal(size=3) * 0.3).tolist()
        try:
            bad = numeric_move_twice(n, edges, root, pos, displ, l1, l2)
        except StepBudgetExceeded as e:
            bad = [f"move_mol_atom does not terminate ({e})"]
        except Exception as e:      # noqa
            bad = [f"second call raises {type(e).__name__}: {e}"]
        if bad:
            nbad += 1
            first = first or ({"fn": "move_twice", "n": n, "edges": [list(e) for e in edges], "atom": root, "pos": pos.tolist(), "displ": displ,
                               "lengths1": {f"{i}_{j}": l for (i, j), l in l1.items()}, "lengths2": {f"{i}_{j}": l for (i, j), l in l2.items()},
                               "signature": "table-edited-in-place"}, bad)
    if first:
        return [ob(tag, "refuted", kind="bounded", engine="smallscope", backend="numeric-contract", evaluations=N,
                   reason=f"{nbad}/{N} violate; first: " + "; ".join(first[1][:3]), cex=first[0])]
    return [ob(tag, "discharged", kind="bounded", engine="smallscope", backend="numeric-contract", evaluations=N, sample={"instances": N})]


def numeric_displ(nb, rng, scale=1.0, offset=0.0):
    T = _T()
    n = nb + 1
    pos = rng.normal(size=(n, 3)) * scale + offset
    order = [int(x) for x in rng.permutation(np.arange(1, n))]          # neighbour lists in arbitrary order
    bonds = {0: [(j, float(np.linalg.norm(pos[0] - pos[j]))) for j in order]}
    orig = pos.copy()
    d = T.find_atom_random_displ(pos, bonds, 0, sigma_scale=0.5)
    bad = []
    if not np.all(np.isfinite(d)):
        bad.append("non-finite displacement")
        return bad
    if not np.array_equal(pos, orig):
        bad.append("input modified")
    if nb == 1:
        vs = [pos[order[0]] - pos[0]]
    elif nb == 2:
        vs = [pos[order[0]] - pos[order[1]]]
    else:
        vs = [pos[order[0]] - pos[order[1]], pos[order[0]] - pos[order[2]]]
    for v in vs:
        if abs(float(np.dot(d, v))) > 1e-9 * max(1e-300, np.linalg.norm(d) * np.linalg.norm(v)) + 1e-15:
            bad.append(f"displacement not perpendicular: d.v = {float(np.dot(d, v))!r}")
    return bad


def task_numeric_displ(tier, seed):
    rng = np.random.default_rng(5 + seed)
    np.random.seed(1000 + seed)
    N = 200 if tier == "quick" else 2000
    tag = f"{PROP}/find_atom_random_displ/bounded.random-geometries"
    first, nbad = None, 0
    for t in range(N):
        nb = 1 + t % 5
        # bond lengths from 1e-3 nm to 1e2 nm, molecules near and far from the origin
        scale = [1.0, 1e-3, 1e2, 1e-2][(t // 5) % 4]
        offset = [0.0, 0.0, 0.0, 500.0][(t // 20) % 4]
        bad = numeric_displ(nb, rng, scale, offset)
        if bad:
            nbad += 1
            first = first or ({"fn": "find_atom_random_displ", "nb": nb, "scale": scale, "offset": offset, "signature": f"nb{nb}"}, bad)
    if first:
        return [ob(tag, "refuted", kind="bounded", engine="smallscope", backend="numeric-contract", evaluations=N,
                   reason="; ".join(first[1][:3]), cex=first[0])]
    return [ob(tag, "discharged", kind="bounded", engine="smallscope", backend="numeric-contract", evaluations=N)]


# ---------------------------------------------------------------------------


def _instances(tier, seed):
    insts = []
    nmax = 5 if tier == "quick" else 6
    for n in range(2, nmax + 1):
        for edges in prufer_trees(n):
            for root in range(n):
                order = "asc" if (root + len(insts)) % 2 == 0 else "desc"
                insts.append((n, edges, root, order, False))
                if n <= 3:
                    insts.append((n, edges, root, "desc" if order == "asc" else "asc", False))
                    insts.append((n, edges, root, order, True))
    if tier != "quick":
        rng = np.random.default_rng(seed)
        for _ in range(60):
            edges = _rand_tree(rng, 7)
            insts.append((7, edges, int(rng.integers(0, 7)), "asc", False))
    cmax = 4 if tier == "quick" else 5
    for n in range(3, cmax + 1):
        gs = list(cyclic_graphs(n))
        if n == 5:
            rng = np.random.default_rng(seed + 1)
            gs = [gs[i] for i in rng.choice(len(gs), 120, replace=False)]
        for edges in gs:
            for root in range(n):
                insts.append((n, edges, root, "asc", False))
    return insts


def _task_part(tier, seed, part, nparts):
    insts = _instances(tier, seed)[part::nparts]
    keep, merged = task_instances(insts)
    out = list(keep)
    for fam, m in merged.items():
        o = dict(m["first"])
        o["id"] = f"{fam}/part{part}"
        o["secs"] = m["secs"]
        o["evaluations"] = m["n"]
        o["nontrivial"] = m["n"]
        o["backend"] = "+".join(sorted(x for x in m["backends"] if x))
        o["sample"] = {"first_instance": m["first"]["id"], "instances_discharged": m["n"]}
        out.append(o)
    return out


def tasks(prop, tier, seed):
    nparts = 32 if tier == "quick" else 96
    t = [(f"move_mol_atom/structures{p}", _task_part, (tier, seed, p, nparts), 1500.0) for p in range(nparts)]
    t.append(("find_atom_random_displ/symrun", task_displ, (seed,), 600.0))
    t.append(("move_mol_atom/numeric", task_numeric, (tier, seed), 900.0))
    t.append(("move_mol_atom/numeric-partial-table", task_numeric_partial, (tier, seed), 900.0))
    t.append(("move_mol_atom/numeric-table-edited-between-calls", task_numeric_twice, (tier, seed), 900.0))
    t.append(("find_atom_random_displ/numeric", task_numeric_displ, (tier, seed), 600.0))
    return t


def replay(prop, cex):
    if cex.get("fn") == "find_atom_random_displ":
        rng = np.random.default_rng(1)
        np.random.seed(3)
        for _ in range(50):
            try:
                bad = numeric_displ(cex["nb"], rng, cex.get("scale", 1.0), cex.get("offset", 0.0))
            except Exception as e:
                bad = [f"raises {type(e).__name__}: {e}"]
            if bad:
                return {"reproduced": True, "observed": bad[:3], "inputs": cex}
        return {"reproduced": False, "inputs": cex}
    if cex.get("fn") == "move_twice":
        k2t = lambda d: {tuple(int(x) for x in k.split("_")): v for k, v in d.items()}
        try:
            bad = numeric_move_twice(cex["n"], [tuple(e) for e in cex["edges"]], cex["atom"], cex["pos"], cex["displ"], k2t(cex["lengths1"]), k2t(cex["lengths2"]))
        except Exception as e:
            bad = [f"raises {type(e).__name__}: {e}"]
        return {"reproduced": bool(bad), "observed": bad[:4], "expected": "every bond has the length the table records at the second call", "inputs": cex}
    n, edges, root = cex["n"], [tuple(e) for e in cex["edges"]], cex["atom"]
    rng = np.random.default_rng(0)
    trials = []
    if cex.get("pos"):
        lengths = {tuple(int(x) for x in k.split("_")): v for k, v in cex["lengths"].items()}
        trials.append((cex["pos"], cex["displ"], lengths))
    for _ in range(20):
        pos = rng.normal(size=(n, 3))
        trials.append((pos.tolist(), rng.normal(size=3).tolist(), {e: float(rng.uniform(0.5, 2)) for e in edges}))
    for pos, displ, lengths in trials:
        try:
            bad = numeric_move(n, edges, root, pos, displ, lengths, cex.get("order", "asc"))
        except Exception as e:
            bad = [f"raises {type(e).__name__}: {e}"]
        if bad:
            return {"reproduced": True, "observed": bad[:4],
                    "inputs": {"n": n, "edges": cex["edges"], "atom": root, "pos": pos, "displ": displ,
                               "lengths": {f"{i}_{j}": l for (i, j), l in lengths.items()}}}
    return {"reproduced": False, "inputs": cex}
