"""Deductive part of C05: pyvc on the AST of the real Manager.extrapolate_system.

Systems of ARBITRARY length and composition.  Model (sidecar): the system is a symbolic sequence of NM molecules,
molecule k has species Spec(k); Complete(s) says species s has both resolutions; the exchange map of species s
returns a molecule of TL(s) atoms (contract of ExchangeMap.__call__: C04 -- target atom count and order); the output
file is a ghost list of written records (molecule index, atom index, written atom number).
Ghost prefix sum  W(k) = sum_{i<k} (Complete(Spec(i)) ? TL(Spec(i)) : 0).
Invariants:  outer loop:  written = W(k) records, atom_index = 1 + W(k)
             inner loop:  written = W(k) + j,     atom_index = 1 + W(k) + j
             content:     record r has number r + 1; the records W(i) .. W(i)+TL-1 are the atoms 0..TL-1 of
                          exchange_map(molecule i), for every complete molecule i < k
Post (from the statement): in input order exactly one mapped molecule per input molecule of a complete species and
nothing for other species; atom count = sum of the target sizes; atom numbers consecutive from 1; title and box are
set from the input before the first record; if no species is complete or a map is missing, SystemError is raised
BEFORE the output file is opened.
"""
from __future__ import annotations

import z3

from vf import symrun as S, core, pyvc, seq
from vf.core import ob, discharge
from vf.pyvc import LoopSpec, St, Stub

PROP = "C05"
REL = "gaddlemaps/_manager.py"

NM, NC = z3.Int("n_molecules"), z3.Int("n_complete_species")
Spec = z3.Function("species_of_molecule", z3.IntSort(), z3.IntSort())
Complete = z3.Function("species_has_both_resolutions", z3.IntSort(), z3.BoolSort())
TL = z3.Function("target_atom_count", z3.IntSort(), z3.IntSort())
W = z3.Function("records_before_molecule", z3.IntSort(), z3.IntSort())
HasMap = z3.Function("complete_species_i_has_exchange_map", z3.IntSort(), z3.BoolSort())


def deductive_info():
    return {
        "functions": [f"{REL}::Manager.extrapolate_system (loop invariant, all system lengths and compositions)"],
        "stubs": ["pyvc models: the system as a symbolic sequence of molecules; complete_correspondence as a symbolic mapping; "
                  "ExchangeMap.__call__ by contract (returns TL(species) atoms in target order: C04); open_coordinate_file / writeline as a ghost record list"],
        "assumptions": ["ExchangeMap.__call__ returns a molecule with the target's atom count (contract checked in C04)",
                        "Atom.gro_line() returns a fresh list whose item 3 is the atom number (checked in the bounded part)"],
        "explanation": ("Deductive: loop invariants (running atom counter = 1 + records written; skipped species write nothing; records of molecule i are "
                        "exactly the atoms of its mapped molecule, in order) on the AST of the real extrapolate_system, for systems of any length; "
                        "pre-flight errors are raised before the output file is opened; title and box assigned before the first record. "),
    }


class Opaque:
    def __init__(self, name):
        self.name = name

    def pyvc_copy(self):
        return self


class OptMap:
    """align.exchange_map of the i-th complete species: None or a map"""

    def __init__(self, i):
        self.i = i

    def pyvc_is_none(self):
        return S.SymBool(z3.Not(HasMap(self.i)))

    def pyvc_copy(self):
        return self


class AlignI:
    def __init__(self, i):
        self.exchange_map = OptMap(i)

    def pyvc_copy(self):
        return self


class Record:
    """atom.gro_line(): a fresh list; item 3 is the atom number"""

    def __init__(self, k, j):
        self.k, self.j, self.number = k, j, None

    def pyvc_copy(self):
        r = Record(self.k, self.j)
        r.number = self.number
        return r

    def pyvc_setitem(self, idx, value, interp, st):
        if idx != 3:
            interp.oblige(st, f"frame.only_the_atom_number_field_is_overwritten(line[{idx}])", z3.BoolVal(False))
            return
        self.number = seq.SymDict._key(value)


class OutAtom:
    def __init__(self, k, j):
        self.k, self.j = k, j

    def gro_line(self):
        return Record(self.k, self.j)

    gro_line.pyvc_pure = True

    def pyvc_copy(self):
        return self


class Mol:
    def __init__(self, k):
        self.k = k
        self.name = Name(Spec(k))

    def pyvc_copy(self):
        return self


class Name:
    def __init__(self, s):
        self.s = s

    def pyvc_copy(self):
        return self


class CC:
    """self.complete_correspondence: {species name: Alignment} for the complete species"""

    def pyvc_truth(self):
        return S.SymBool(NC > 0)

    def pyvc_copy(self):
        return self

    def values(self):
        return seq.SymSeq("complete_correspondence.values()", NC, lambda i: AlignI(i))

    values.pyvc_pure = True

    def pyvc_contains(self, name):
        if not isinstance(name, Name):
            raise pyvc.PyvcUnsupported("membership test with a non-name")
        return S.SymBool(Complete(name.s))

    def pyvc_getitem(self, name, interp, st):
        if not isinstance(name, Name):
            raise pyvc.PyvcUnsupported("lookup with a non-name")
        interp.oblige(st, "safety.key-present[complete_correspondence]", Complete(name.s))
        al = Opaque("alignment")

        def xmap(interp2, st2, args, kw, node):
            ok = len(args) == 1 and not kw and isinstance(args[0], Mol)
            interp2.oblige(st2, "callsite.exchange_map_applied_to_the_current_input_molecule", z3.BoolVal(bool(ok)))
            if not ok:
                raise pyvc.PyvcUnsupported("exchange_map call shape")
            same = z3.simplify(Spec(args[0].k) == name.s)
            interp2.oblige(st2, "callsite.exchange_map_of_the_molecule's_own_species", Spec(args[0].k) == name.s)
            k = args[0].k
            return seq.SymSeq("mapped molecule", TL(Spec(k)), lambda j: OutAtom(k, j))
        al.exchange_map = Stub("exchange_map", xmap)
        return al


def _writeline(interp2, st2, a, k_, n):
    if len(a) != 1 or not isinstance(a[0], Record) or k_:
        raise pyvc.PyvcUnsupported("writeline argument")
    rec = a[0]
    fobj = st2.env["fgro"]
    num = rec.number if rec.number is not None else z3.IntVal(-1)
    as_t = lambda v: z3.IntVal(v) if isinstance(v, int) else v
    fobj.written.append((as_t(rec.k), as_t(rec.j), num))
    return None


class OutFile:
    def __init__(self):
        self.written = seq.SymList("written", [z3.IntSort(), z3.IntSort(), z3.IntSort()], lambda c: tuple(c), lambda x: list(x))
        self.attrs = {}
        self.opened = False
        self.writeline = Stub("writeline", _writeline)

    def pyvc_copy(self):
        o = OutFile()
        o.written = self.written.pyvc_copy()
        o.attrs = dict(self.attrs)
        o.opened = self.opened
        return o

    def pyvc_fresh_like(self, interp, name):
        o = OutFile()
        o.written = self.written.pyvc_fresh_like(interp, name + "_written")
        o.attrs = dict(self.attrs)
        o.opened = self.opened
        return o

    def pyvc_setattr(self, attr, value, interp, st):
        empty = self.written.length == 0
        interp.oblige(st, f"ensures.{attr}_assigned_before_the_first_record", empty)
        self.attrs[attr] = value

    def pyvc_enter(self, interp, st):
        self.opened = True
        st.log.append(("open",))
        return self

    def pyvc_exit(self, interp, st, sig):
        st.log.append(("close", sig))


def _w_inst(k):
    return z3.Implies(k >= 0, W(k + 1) == W(k) + z3.If(Complete(Spec(k)), TL(Spec(k)), 0))


def _content(out: OutFile, upto_k, extra_j=None):
    """records of complete molecules i < upto_k (and of molecule upto_k up to atom extra_j)"""
    wl = out.written
    r, i, j = z3.Int("r!c"), z3.Int("i!c"), z3.Int("j!c")
    cl = [z3.ForAll([r], z3.Implies(z3.And(r >= 0, r < wl.length), z3.Select(wl.arrays[2], r) == r + 1)),
          z3.ForAll([i, j], z3.Implies(z3.And(i >= 0, i < upto_k, Complete(Spec(i)), j >= 0, j < TL(Spec(i))),
                                       z3.And(W(i) >= 0, W(i) + j < wl.length, z3.Select(wl.arrays[0], W(i) + j) == i,
                                              z3.Select(wl.arrays[1], W(i) + j) == j)))]
    if extra_j is not None:
        cl.append(z3.ForAll([j], z3.Implies(z3.And(j >= 0, j < extra_j),
                                            z3.And(z3.Select(wl.arrays[0], W(upto_k) + j) == upto_k, z3.Select(wl.arrays[1], W(upto_k) + j) == j))))
    return cl


def task_loop(seed):
    tag = f"{PROP}/Manager.extrapolate_system"
    out = []
    holder = {}

    def open_stub(interp, st, args, kw, node):
        ok = len(args) == 2 and args[0] is PATH and args[1] == "w"
        interp.oblige(st, "callsite.output_opened_for_writing_at_the_requested_path", z3.BoolVal(bool(ok)))
        f = OutFile()
        return f

    PATH = Opaque("fgro_out")
    COMMENT, BOX = Opaque("input title"), Opaque("input box")

    class NS:
        pass
    selfm = NS()
    selfm.complete_correspondence = CC()
    selfm.system = seq.SymSeq("system", NM, lambda k: Mol(k))
    selfm.system.system_gro = NS()
    selfm.system.system_gro.comment_line = COMMENT
    selfm.system.system_gro.box_matrix = BOX
    selfm.pyvc_copy = lambda: selfm

    def f_of(st):
        f = st.env.get("fgro")
        return f if isinstance(f, OutFile) else None

    def inv_pre(st, i):
        # pre-flight loop over the complete species: every one seen so far has a map
        x = z3.Int("x!p")
        return z3.And(i >= 0, i <= NC, z3.ForAll([x], z3.Implies(z3.And(x >= 0, x < i), HasMap(x))))

    def inv_outer(st, k):
        f = f_of(st)
        if f is None:
            raise pyvc.PyvcUnsupported("the output file object the sidecar models is not bound in this version of the function")
        if pyvc.local(st, "atom_index") is pyvc.UNBOUND:
            return z3.BoolVal(False)
        ai = seq.SymDict._key(st.env["atom_index"])
        return z3.And(k >= 0, k <= NM, f.written.length == W(k), W(k) >= 0, ai == 1 + W(k), *_content(f, k))

    def inv_inner(st, j):
        f = f_of(st)
        k = st.ghost.get("outer_k")
        if f is None or k is None:
            raise pyvc.PyvcUnsupported("the output file object / outer index the sidecar models is not bound in this version of the function")
        if pyvc.local(st, "atom_index") is pyvc.UNBOUND:
            return z3.BoolVal(False)
        ai = seq.SymDict._key(st.env["atom_index"])
        return z3.And(j >= 0, j <= TL(Spec(k)), Complete(Spec(k)), k >= 0, k < NM, W(k) >= 0, f.written.length == W(k) + j,
                      ai == 1 + W(k) + j, *_content(f, k, extra_j=j))

    def start_outer(interp, st, k):
        st.ghost["outer_k"] = k
        st.assume(_w_inst(k))

    loops = {0: LoopSpec(inv_pre, name="preflight-loop"),
             1: LoopSpec(inv_outer, name="molecules-loop", on_iteration_start=start_outer),
             2: LoopSpec(inv_inner, name="atoms-loop")}
    t = z3.Int("t!tl")
    pre = [NM >= 0, NC >= 0, W(0) == 0, z3.ForAll([t], TL(t) >= 0)]
    try:
        it = pyvc.Interp(REL, "Manager.extrapolate_system", {"open_coordinate_file": Stub("open", open_stub), "SystemError": SystemError}, loops, tag)
        ends = it.run({"self": selfm, "fgro_out": PATH}, ghost={"outer_k": z3.IntVal(0)}, pre=pre)
    except (pyvc.PyvcUnsupported, S.SymError) as e:
        return [ob(f"{tag}/vc-generation", "undecided", engine="pyvc", reason=f"outside the pyvc subset: {type(e).__name__}: {e}")]
    out.append(ob(f"{tag}/vc-generation", "discharged" if it.obls and ends else "undecided", engine="pyvc", backend="ast",
                  sample={"obligations": len(it.obls), "exit_paths": len(ends), "source": it.path}))
    cex = {"kind": "vc", "signature": "extrapolate-loop"}
    for o in it.obls:
        v = discharge(o.name, o.hyps, o.goal, backends=("z3",), engine="pyvc", timeout_ms=30000, seed=seed,
                      sample={"goal": core.short(o.goal, 160), "n_hyps": len(o.hyps)})
        if v["status"] == "refuted":
            v["cex"] = dict(cex, obligation=o.name)
        out.append(v)
    x = z3.Int("x!e")
    n_ok_exit = 0
    for ei, e in enumerate(ends):
        opened = any(ev[0] == "open" for ev in e.log)
        if e.sig == pyvc.RAISE:
            # error exits: must be SystemError raised before the file is opened, and only when nothing is complete or a map is missing
            okp = not opened          # the statement says "raises an error and writes no file" (no exception type named)
            o = ob(f"{tag}/exit{ei}/raises.error_before_the_output_file_is_opened", "discharged" if okp else "refuted", engine="pyvc",
                   backend="path", reason=f"raise {e.val}; file opened: {opened}", cex=None if okp else dict(cex, signature="preflight"))
            out.append(o)
            v = discharge(f"{tag}/exit{ei}/raises.only_when_no_species_is_complete_or_a_map_is_missing", e.pc,
                          z3.Or(NC <= 0, z3.Exists([x], z3.And(x >= 0, x < NC, z3.Not(HasMap(x))))), backends=("z3",), engine="pyvc", timeout_ms=20000)
            if v["status"] == "refuted":
                v["cex"] = dict(cex, signature="spurious-error")
            out.append(v)
            continue
        f = f_of(e)
        if f is None:
            out.append(ob(f"{tag}/exit{ei}/normal_exit_has_written_a_file", "refuted", engine="pyvc", cex=dict(cex, signature="no-file")))
            continue
        n_ok_exit += 1
        hy = e.pc
        posts = {
            "ensures.returns_only_when_a_species_is_complete_and_every_complete_species_has_a_map":
                z3.And(NC > 0, z3.ForAll([x], z3.Implies(z3.And(x >= 0, x < NC), HasMap(x)))),
            "ensures.atom_count_is_the_sum_of_target_sizes_of_complete_molecules": f.written.length == W(NM),
            "ensures.atom_numbers_consecutive_from_1_and_one_mapped_molecule_per_complete_input_molecule_in_order": z3.And(*_content(f, NM)),
        }
        for nm, goal in posts.items():
            v = discharge(f"{tag}/exit{ei}/{nm}", hy, goal, backends=("z3",), engine="pyvc", timeout_ms=30000)
            if v["status"] == "refuted":
                v["cex"] = dict(cex, signature=nm)
            out.append(v)
        okattr = f.attrs.get("comment") is COMMENT and f.attrs.get("box_matrix") is BOX
        out.append(ob(f"{tag}/exit{ei}/ensures.title_and_box_taken_from_the_input_system", "discharged" if okattr else "refuted", engine="pyvc",
                      backend="path", cex=None if okattr else dict(cex, signature="title-box")))
        closed = any(ev[0] == "close" for ev in e.log)
        out.append(ob(f"{tag}/exit{ei}/ensures.output_file_closed", "discharged" if closed else "refuted", engine="pyvc", backend="path",
                      cex=None if closed else dict(cex, signature="not-closed")))
        out.append(core.must_fail(f"{tag}/exit{ei}/guard.must-fail", hy, f.written.length == NM, engine="pyvc", timeout_ms=10000))
    if not n_ok_exit:
        out.append(ob(f"{tag}/normal-exit-exists", "undecided", engine="pyvc", reason="no normal exit path found"))
    return out


def deductive_tasks(prop, tier, seed):
    return [("extrapolate_system/pyvc", task_loop, (seed,), 900.0)]
