"""B04 -- bounded part of C04: applying an exchange map is pure, history-independent
and species-checked.

Run-time contracts (kind="bounded", engine="smallscope") around the REAL
gaddlemaps.ExchangeMap.__init__/__call__ on real Molecule objects loaded from generated
(own .gro/.itp writers) and shipped files, over enumerated call sequences.

Oracles (all independent of the object under check):
  * "what a freshly built map returns": a NEW ExchangeMap built from freshly loaded
    construction molecules placed at their construction-time coordinates, same scale, that
    has never been called before, applied once to a freshly loaded molecule with the
    argument's current coordinates and residue numbers (the statement's own comparison);
  * the generator's species tables (names, residue names, order, residue index per atom)
    for the result shape;
  * snapshots (coordinates, velocities, atom ids) taken by the harness for the frame clauses;
  * a convention-free geometric oracle (nearest anchor with >= 2 bonds, rigid image of
    a + s (p - a) for rigidly moved copies of the construction reference, anchor distance
    s |p - a| for deformed ones) so that "history independent" is not satisfied vacuously by
    a map that ignores its argument.

The module is a helper: contracts/c01_c04_exchange_map.py imports bounded_info /
bounded_tasks / replay.  cex["fn"] values are prefixed "b04:".
"""
from __future__ import annotations

import contextlib
import gc
import io
import itertools
import math
import os
import random
import shutil
import tempfile
import time
import weakref
import zlib

import numpy as np

from vf.core import ob

PROP = "C04"
FN = "ExchangeMap.__call__"
TOL_SAME = 1e-12      # "the same" result (statement: history independence)
TOL_GEO = 1e-9        # geometric oracle

# check kind -> clause of the statement
CLAUSES = {
    "history": "ensures.result_equals_fresh_map_whatever_was_mapped_before",
    "later": "ensures.result_unaffected_by_later_coordinate_changes_of_construction_molecules",
    "usable": "ensures.map_fully_usable_after_rejected_argument",
    "shape": "ensures.result_has_target_names_resnames_count_order_and_argument_resids",
    "typeerror": "ensures.other_species_or_non_molecule_rejected_with_TypeError",
    "frame_arg": "frame.argument_coordinates_velocities_ids_unchanged",
    "frame_con": "frame.construction_molecules_coordinates_unchanged",
    "frame_prev": "frame.previously_returned_molecules_unchanged",
    "follows": "ensures.result_follows_the_argument_anchor_and_scale",
    "internal": "internal-frame.rejected_call_writes_no_map_state",    # informational: undecided on mismatch, never refuted
}
RESULT_KINDS = ("history", "later", "usable")


class HarnessError(Exception):
    pass


def _quiet():
    return contextlib.redirect_stdout(io.StringIO())


def _exc(e):
    return f"{type(e).__name__}: {str(e)[:160]}"


# ---------------------------------------------------------------------------
# species tables (generator = oracle side)

def _spec(molname, residues, bonds, vel=False):
    """residues: list of (resname, [atom names]); topology residue numbers 1..n."""
    atoms = []
    for ri, (resname, names) in enumerate(residues):
        for n in names:
            atoms.append([n, resname, ri + 1])
    return {"molname": molname, "atoms": atoms, "bonds": [list(b) for b in bonds], "vel": bool(vel)}


REF_SPECS = {
    "chain3": _spec("RCA", [("RCA", ["A1", "A2", "A3"])], [(0, 1), (1, 2)]),
    "ring3": _spec("RRA", [("RRA", ["C1", "C2", "C3"])], [(0, 1), (1, 2), (0, 2)], vel=True),
    "star4": _spec("RSA", [("RSA", ["S0", "S1", "S2", "S3"])], [(0, 1), (0, 2), (0, 3)]),
    "ring4": _spec("RRB", [("RRB", ["Q1", "Q2", "Q3", "Q4"])], [(0, 1), (1, 2), (2, 3), (0, 3)]),
    "chain4m": _spec("RCM", [("HD", ["H1", "H2"]), ("TL", ["T1", "T2"])], [(0, 1), (1, 2), (2, 3)], vel=True),
    "chain5": _spec("RCB", [("RCB", ["B1", "B2", "B3", "B4", "B5"])], [(0, 1), (1, 2), (2, 3), (3, 4)]),
    "branch5m": _spec("RBM", [("BA", ["X1", "X2"]), ("BB", ["Y1"]), ("BA", ["X1", "X2"])],
                      [(0, 1), (1, 2), (1, 3), (3, 4)]),
}
TGT_SPECS = {
    "t1": _spec("TONE", [("TON", ["W1"])], []),
    "t2": _spec("TTWO", [("TTW", ["D1", "D2"])], [(0, 1)], vel=True),
    "t3": _spec("TTRI", [("TTR", ["E1", "E2", "E3"])], [(0, 1), (1, 2)]),
    "t6": _spec("THEX", [("THX", ["F1", "F2", "F3", "F4", "F5", "F6"])],
                [(0, 1), (1, 2), (2, 3), (3, 4), (4, 5)], vel=True),
    "t4m": _spec("TQM", [("QA", ["G1", "G2", "G3"]), ("QB", ["G4"])], [(0, 1), (1, 2), (2, 3)]),
    "t5m": _spec("TPM", [("PA", ["K1"]), ("PA", ["K1", "K2", "K3", "K4"])], [(0, 1), (1, 2), (2, 3), (3, 4)], vel=True),
    "t6m": _spec("TSM", [("SA", ["L1", "L2"]), ("SB", ["L3", "L4", "L5"]), ("SC", ["L6"])],
                 [(0, 1), (1, 2), (2, 3), (3, 4), (4, 5)]),
    "t3m": _spec("TTM", [("MA", ["M1"]), ("MB", ["M2"]), ("MA", ["M1"])], [(0, 1), (1, 2)]),
}
PAIRS = [("chain3", "t1"), ("chain3", "t6"), ("ring3", "t2"), ("ring3", "t3"), ("star4", "t3"), ("star4", "t1"),
         ("ring4", "t6"), ("ring4", "t2"), ("chain5", "t3"), ("chain5", "t6"),
         ("chain4m", "t4m"), ("chain4m", "t5m"), ("branch5m", "t6m"), ("branch5m", "t3m")]
SCALES = (0.5, 1.0)
SHIPPED = ("BMIM", "BF4")


def n_res(spec):
    return len({a[2] for a in spec["atoms"]})


def res_index(spec):
    """residue index (0-based) of every atom."""
    return [a[2] - 1 for a in spec["atoms"]]


def neighbours(spec):
    nb = {i: set() for i in range(len(spec["atoms"]))}
    for i, j in spec["bonds"]:
        nb[i].add(j)
        nb[j].add(i)
    return nb


def anchors_of(spec):
    return [i for i, s in sorted(neighbours(spec).items()) if len(s) >= 2]


def itp_text(spec):
    lines = ["; generated by contracts/b04_history.py", "[ moleculetype ]", "; name nrexcl", f"{spec['molname']} 1", "",
             "[ atoms ]", "; nr type resnr residue atom cgnr charge mass"]
    for k, (name, resname, rid) in enumerate(spec["atoms"]):
        lines.append(f"{k + 1:5d} C {rid:4d} {resname:5s} {name:5s} {k + 1:4d} 0.000 12.0")
    lines.append("")
    if spec["bonds"]:
        lines += ["[ bonds ]", "; i j funct length k"]
        for i, j in spec["bonds"]:
            lines.append(f"{i + 1:5d} {j + 1:5d} 1 0.150 1000.0")
        lines.append("")
    return "\n".join(lines)


def gro_text(spec, pos, first_resid=1, first_atomid=1):
    lines = ["b04 generated molecule", f"{len(spec['atoms']):5d}"]
    for k, ((name, resname, rid), p) in enumerate(zip(spec["atoms"], pos)):
        l = f"{first_resid + rid - 1:5d}{resname:<5s}{name:>5s}{first_atomid + k:5d}{p[0]:8.3f}{p[1]:8.3f}{p[2]:8.3f}"
        if spec["vel"]:
            l += f"{0.01 * (k + 1):8.4f}{-0.02 * (k + 1):8.4f}{0.5 - 0.03 * k:8.4f}"
        lines.append(l)
    lines.append("   9.00000   9.00000   9.00000")
    return "\n".join(lines) + "\n"


# ---------------------------------------------------------------------------
# geometry (deterministic; coordinates on the 0.001 grid of the .gro format)

def _rng(*key):
    return np.random.default_rng(zlib.crc32(repr(key).encode()))


def _rot(axis, theta):
    """Rodrigues rotation (own implementation; the repo's rotation_matrix is not used by the oracle)."""
    a = np.asarray(axis, dtype=float)
    a = a / np.linalg.norm(a)
    K = np.array([[0, -a[2], a[1]], [a[2], 0, -a[0]], [-a[1], a[0], 0]])
    return np.eye(3) + math.sin(theta) * K + (1 - math.cos(theta)) * (K @ K)


def _frames_ok(spec, P, min_sin=0.25, min_d=0.08):
    P = np.asarray(P, dtype=float)
    n = len(P)
    for i in range(n):
        for j in range(i + 1, n):
            if np.linalg.norm(P[i] - P[j]) < min_d:
                return False
    nb = neighbours(spec)
    for a in anchors_of(spec):
        n1, n2 = sorted(nb[a])[:2]
        u, v = P[n1] - P[a], P[n2] - P[a]
        s = np.linalg.norm(np.cross(u, v)) / (np.linalg.norm(u) * np.linalg.norm(v))
        if s < min_sin:
            return False
    return True


def gen_ref_pos(key, spec):
    rng = _rng("ref", key)
    n = len(spec["atoms"])
    for _ in range(10000):
        P = np.round(2.0 + rng.uniform(-0.35, 0.35, size=(n, 3)), 3)
        if _frames_ok(spec, P, min_sin=0.4, min_d=0.15):
            return P
    raise HarnessError("no reference geometry")


def nearest_anchor(refspec, refpos, p):
    d = sorted((float(np.linalg.norm(np.asarray(p) - refpos[a])), a) for a in anchors_of(refspec))
    gap = d[1][0] - d[0][0] if len(d) > 1 else 1.0
    return d[0][1], gap


def gen_tgt_pos(key, refspec, refpos, tspec):
    rng = _rng("tgt", key)
    n = len(tspec["atoms"])
    for _ in range(10000):
        P = np.array([refpos[rng.integers(len(refpos))] + rng.uniform(-0.2, 0.2, 3) for _ in range(n)])
        P = np.round(P, 3)
        ok = all(nearest_anchor(refspec, refpos, p)[1] > 0.02 for p in P)
        ok = ok and all(np.linalg.norm(p - refpos[nearest_anchor(refspec, refpos, p)[0]]) > 0.03 for p in P)
        ok = ok and all(np.linalg.norm(P[i] - P[j]) > 0.03 for i in range(n) for j in range(i + 1, n))
        if ok:
            return P
    raise HarnessError("no target geometry")


def gen_confs(key, refspec, refpos, n_pool, rng=None, first="REF"):
    """Pool of argument conformations: [the construction reference object itself | an identical copy],
    a rigidly moved copy, a deformed copy, a rigidly moved + deformed copy (far away), ..."""
    rng = rng or _rng("confs", key)
    nres = n_res(refspec)
    confs = []
    k = 0
    while len(confs) < n_pool:
        k += 1
        resids = [10 * k + 1 + 3 * j for j in range(nres)]
        mode = ("same", "rigid", "deform", "rigid+deform")[(len(confs)) % 4]
        if len(confs) == 0 and first == "REF":
            confs.append({"mode": "REF"})
            continue
        P = refpos.copy()
        meta = {}
        if "deform" in mode:
            for _ in range(1000):
                Q = refpos + rng.normal(0, 0.05, size=refpos.shape)
                if _frames_ok(refspec, Q):
                    P = Q
                    break
            else:
                raise HarnessError("no deformed conformation")
        if "rigid" in mode:
            R = _rot(rng.normal(size=3), float(rng.uniform(0.4, 2.7)))
            t = rng.uniform(-3, 3, 3) * (1.0 if "deform" in mode else 0.3)
            c = refpos.mean(axis=0)
            P = (P - c) @ R.T + c + t
            if mode == "rigid":
                meta = {"R": R.tolist(), "t": t.tolist(), "c": c.tolist()}
        elif mode == "same":
            meta = {"R": np.eye(3).tolist(), "t": [0.0, 0.0, 0.0], "c": [0.0, 0.0, 0.0]}
        conf = {"mode": mode, "pos": P.tolist(), "resids": resids}
        if meta:
            conf["rigid"] = meta
        confs.append(conf)
    return confs


# ---------------------------------------------------------------------------
# worlds: where molecules come from

def _data_dir():
    import gaddlemaps
    return os.path.join(os.path.dirname(gaddlemaps.__file__), "data")


def variant_spec(refspec, kind):
    import copy
    s = copy.deepcopy(refspec)
    if kind == "other_molname":
        s["molname"] = refspec["molname"][:3] + "X"
    elif kind == "other_atomname":
        # rename one atom of a residue kind that occurs once (System recognises residues by kind)
        kinds = [rn for rn, _ in itertools.groupby((a[1], a[2]) for a in s["atoms"])]
        once = [k for k in range(len(s["atoms"])) if sum(1 for rn in kinds if rn[0] == s["atoms"][k][1]) == 1]
        s["atoms"][(once or [len(s["atoms"]) - 1])[-1]][0] = "ZZ9"
    elif kind == "more_atoms":
        last = s["atoms"][-1]
        s["atoms"].append(["XT", last[1], last[2]])
        s["bonds"].append([len(s["atoms"]) - 2, len(s["atoms"]) - 1])
    elif kind == "fewer_atoms":
        n = len(s["atoms"]) - 1
        s["atoms"] = s["atoms"][:n]
        s["bonds"] = [b for b in s["bonds"] if b[0] < n and b[1] < n]
        # keep residue numbering contiguous 1..k
        rids = sorted({a[2] for a in s["atoms"]})
        for a in s["atoms"]:
            a[2] = rids.index(a[2]) + 1
    elif kind == "unrelated":
        s["molname"] = "UNR"
        for k, a in enumerate(s["atoms"]):
            a[0], a[1] = f"U{k + 1}", "UNR"
            a[2] = 1
    else:
        raise HarnessError(kind)
    return s


NON_MOLECULES = ("None", "Residue", "ndarray", "MoleculeTop", "str")
GEN_SPECIES_KINDS = ("other_molname", "other_atomname", "more_atoms", "fewer_atoms", "unrelated", "target")
SHIPPED_SPECIES_KINDS = ("target", "other_shipped")


class World:
    """Scratch directory + loaders of fresh, independent molecule objects."""

    def __init__(self, desc):
        self.desc = desc
        self.dir = tempfile.mkdtemp(prefix="b04_")
        self._files = {}
        self._exp = {}
        self.n_fresh_maps = 0
        if desc["kind"] == "gen":
            self.refspec, self.tgtspec = desc["ref"], desc["tgt"]
            self.refpos = np.array(desc["refpos"], dtype=float)
            self.tgtpos = np.array(desc["tgtpos"], dtype=float)
            self.ref_files = self._write("ref", self.refspec, self.refpos, 1, 1)
            self.tgt_files = self._write("tgt", self.tgtspec, self.tgtpos, 5, 101)
            self.species_kinds = GEN_SPECIES_KINDS
        else:
            self.refspec = self.tgtspec = None
            d = _data_dir()
            name = desc["name"]
            if name == "BMIM":
                lines = open(os.path.join(d, "system_bmimbf4_cg.gro")).read().splitlines()
                body = [l for l in lines[2:-1] if l[5:10].strip() == "BMIM"]
                self._bmim_lines = body
                fgro = os.path.join(self.dir, "bmim_cg_0.gro")
                with open(fgro, "w") as f:
                    f.write("\n".join(["one BMIM CG", "    3"] + body[:3] + [lines[-1]]) + "\n")
                self.ref_files = (fgro, os.path.join(d, "BMIM_CG.itp"))
                self.tgt_files = (os.path.join(d, "BMIM_AA.gro"), os.path.join(d, "BMIM_AA.itp"))
                self.other_files = (os.path.join(d, "BF4_AA.gro"), os.path.join(d, "BF4_AA.itp"))
            elif name == "BF4":
                self.ref_files = (os.path.join(d, "BF4_AA.gro"), os.path.join(d, "BF4_AA.itp"))
                self.tgt_files = (os.path.join(d, "BF4_CG.gro"), os.path.join(d, "BF4_CG.itp"))
                self.other_files = (os.path.join(d, "BMIM_AA.gro"), os.path.join(d, "BMIM_AA.itp"))
            else:
                raise HarnessError(name)
            r = self._load(self.ref_files)
            t = self._load(self.tgt_files)
            self.refpos = np.array(r.atoms_positions, dtype=float)
            tp = np.array(t.atoms_positions, dtype=float)
            # overlay the target on the reference (centre on centre): the construction-time coordinates
            self.tgtpos = tp - tp.mean(axis=0) + self.refpos.mean(axis=0) + np.array(desc.get("offset", [0.0, 0.0, 0.0]))
            self.species_kinds = SHIPPED_SPECIES_KINDS

    def bmim_positions(self, k):
        ls = self._bmim_lines[3 * k:3 * k + 3]
        return [[float(l[20:28]), float(l[28:36]), float(l[36:44])] for l in ls], [int(ls[0][:5])]

    def _write(self, key, spec, pos, first_resid, first_atomid):
        fgro = os.path.join(self.dir, key + ".gro")
        ftop = os.path.join(self.dir, key + ".itp")
        with open(fgro, "w") as f:
            f.write(gro_text(spec, pos, first_resid, first_atomid))
        with open(ftop, "w") as f:
            f.write(itp_text(spec))
        self._files[key] = (fgro, ftop)
        return fgro, ftop

    def _load(self, files):
        from gaddlemaps.components import Molecule
        with _quiet():
            return Molecule.from_files(*files)

    @staticmethod
    def place(mol, pos=None, resids=None):
        if pos is not None:
            P = np.array(pos, dtype=float)
            mol.atoms_positions = P
            if not np.array_equal(np.asarray(mol.atoms_positions, dtype=float), P):
                raise HarnessError("atoms_positions setter did not store the given coordinates")
        if resids is not None:
            res = mol.residues
            if len(res) != len(resids):
                raise HarnessError("residue count of the placed molecule differs from the conformation")
            for r, rid in zip(res, resids):
                r.resid = int(rid)
            if list(mol.resids) != [int(x) for x in resids]:
                raise HarnessError("residue numbers not stored")
        return mol

    def new_ref(self):
        return self.place(self._load(self.ref_files), self.refpos)

    def new_tgt(self):
        return self.place(self._load(self.tgt_files), self.tgtpos)

    def new_arg(self, pos, resids):
        return self.place(self._load(self.ref_files), pos, resids)

    def new_other(self, kind):
        """A molecule of another species (fresh object), placed somewhere sensible."""
        if kind == "target":
            return self.place(self._load(self.tgt_files), self.tgtpos + np.array([0.3, -0.2, 0.1]))
        if kind == "other_shipped":
            return self._load(self.other_files)
        spec = variant_spec(self.refspec, kind)
        if kind not in self._files:
            P = self.refpos
            if len(spec["atoms"]) > len(P):
                P = np.vstack([P, P[-1] + np.array([0.11, 0.07, -0.13])])
            P = np.round(P[:len(spec["atoms"])] + np.array([0.5, 0.25, -0.5]), 3)
            self._write(kind, spec, P, 7, 201)
        return self._load(self._files[kind])

    # -- short-lived objects (scope family "argument lifetimes"): one allocation of the object itself per call, so
    #    that CPython can hand the address of a dead accepted argument to the next object of the same size
    def _tpl(self, kind):
        t = getattr(self, "_templates", None)
        if t is None:
            t = self._templates = {}
        if kind not in t:
            t[kind] = self._load(self.ref_files) if kind == "arg" else self.new_other(kind)
        return t[kind]

    def fresh_arg(self, pos, resids):
        return self.place(self._tpl("arg").copy(), pos, resids)

    def fresh_other(self, kind, n=0):
        if kind == "None":
            return None
        if kind == "Residue":
            return self._tpl("arg").residues[0].copy()
        if kind == "ndarray":
            return np.array(self.refpos)
        if kind == "MoleculeTop":
            return self._tpl("arg").molecule_top.copy()
        if kind == "str":
            return "molecule-%d" % n
        return self._tpl(kind).copy()

    # -- the statement's oracle: a freshly built, never-called map on fresh objects
    def expected(self, scale, pos, resids):
        key = (float(scale), np.asarray(pos, dtype=float).tobytes(), tuple(int(r) for r in resids))
        if key not in self._exp:
            from gaddlemaps import ExchangeMap
            ref, tgt = self.new_ref(), self.new_tgt()
            arg = self.new_arg(pos, resids)
            em = ExchangeMap(ref, tgt, scale_factor=scale)
            self.n_fresh_maps += 1
            self._exp[key] = fingerprint(em(arg))
        return self._exp[key]

    def describe(self):
        return self.desc

    def close(self):
        shutil.rmtree(self.dir, ignore_errors=True)


def gen_world_desc(rkey, tkey):
    refspec, tspec = REF_SPECS[rkey], TGT_SPECS[tkey]
    if n_res(refspec) != n_res(tspec):
        raise HarnessError("pairs need equal residue counts (resids setter)")
    refpos = gen_ref_pos(rkey, refspec)
    tgtpos = gen_tgt_pos((rkey, tkey), refspec, refpos, tspec)
    return {"kind": "gen", "pair": f"{rkey}-{tkey}", "ref": refspec, "tgt": tspec,
            "refpos": refpos.tolist(), "tgtpos": tgtpos.tolist()}


# ---------------------------------------------------------------------------
# observations

def snap(mol):
    pos = np.array(mol.atoms_positions, dtype=float, copy=True)
    vel = mol.atoms_velocities
    vel = None if vel is None else np.array(vel, dtype=float, copy=True)
    return pos, vel, [int(i) for i in mol.atoms_ids]


def snap_diff(a, b):
    out = []
    if a[0].shape != b[0].shape or not np.array_equal(a[0], b[0]):
        d = float(np.abs(a[0] - b[0]).max()) if a[0].shape == b[0].shape else float("nan")
        out.append(f"coordinates changed (max |delta| = {d:.3g})")
    if (a[1] is None) != (b[1] is None) or (a[1] is not None and not np.array_equal(a[1], b[1])):
        out.append("velocities changed")
    if a[2] != b[2]:
        out.append(f"atom ids changed {a[2]} -> {b[2]}")
    return out


def fingerprint(mol):
    atoms = list(mol)
    return {"n": len(mol), "pos": np.array(mol.atoms_positions, dtype=float, copy=True),
            "names": [a.name for a in atoms], "resnames_atom": [a.resname for a in atoms],
            "resids_atom": [int(a.gro_resid) for a in atoms],
            "resnames": list(mol.resnames), "resids": [int(r) for r in mol.resids]}


def fp_diff(got, exp, tol=TOL_SAME):
    out = []
    for k in ("n", "names", "resnames_atom", "resids_atom", "resnames", "resids"):
        if got[k] != exp[k]:
            out.append(f"{k}: got {got[k]} expected {exp[k]}")
    if got["pos"].shape != exp["pos"].shape:
        out.append(f"positions shape {got['pos'].shape} expected {exp['pos'].shape}")
    else:
        d = np.abs(got["pos"] - exp["pos"])
        if not np.all(d <= tol):   # also catches NaN
            i = int(np.nanargmax(np.where(np.isnan(d), np.inf, d).max(axis=1)))
            out.append(f"positions differ by {float(np.nanmax(np.where(np.isnan(d), np.inf, d))):.3g} nm (atom {i}: "
                       f"got {got['pos'][i].tolist()} expected {exp['pos'][i].tolist()})")
    return out


def shape_diff(fp, tspec, arg_resids):
    """Independent of any map: names / residue names / count / order from the generator's target table,
    residue numbers from the argument (per residue)."""
    out = []
    names = [a[0] for a in tspec["atoms"]]
    rn_atom = [a[1] for a in tspec["atoms"]]
    ri = res_index(tspec)
    if fp["n"] != len(names):
        out.append(f"atom count {fp['n']} expected {len(names)}")
    if fp["names"] != names:
        out.append(f"atom names {fp['names']} expected {names}")
    if fp["resnames_atom"] != rn_atom:
        out.append(f"residue names per atom {fp['resnames_atom']} expected {rn_atom}")
    exp_res = [int(arg_resids[i]) for i in ri]
    if fp["resids_atom"] != exp_res:
        out.append(f"residue numbers per atom {fp['resids_atom']} expected the argument's {exp_res}")
    if fp["resids"] != [int(r) for r in arg_resids]:
        out.append(f"resids {fp['resids']} expected the argument's {list(arg_resids)}")
    per_res = [rn for rn, _ in itertools.groupby(zip(rn_atom, ri))]
    if fp["resnames"] != [p[0] for p in per_res]:
        out.append(f"resnames {fp['resnames']} expected {[p[0] for p in per_res]}")
    return out


def shape_diff_shipped(fp, tgt_fp, arg_resids):
    out = []
    for k in ("n", "names", "resnames_atom", "resnames"):
        if fp[k] != tgt_fp[k]:
            out.append(f"{k}: got {fp[k]} expected the target's {tgt_fp[k]}")
    if fp["resids"] != [int(r) for r in arg_resids]:
        out.append(f"resids {fp['resids']} expected the argument's {list(arg_resids)}")
    return out


def follows_diff(world, scale, fp, argpos, rigid):
    """Convention-free geometric oracle from the generator's tables and construction coordinates."""
    out = []
    refspec, refpos, tgtpos = world.refspec, world.refpos, world.tgtpos
    argpos = np.asarray(argpos, dtype=float)
    if fp["pos"].shape != tgtpos.shape:
        return [f"positions shape {fp['pos'].shape}"]
    for t, p in enumerate(tgtpos):
        a, _ = nearest_anchor(refspec, refpos, p)
        if rigid is not None:
            R, tr, c = np.array(rigid["R"]), np.array(rigid["t"]), np.array(rigid["c"])
            q = refpos[a] + scale * (p - refpos[a])
            e = (q - c) @ R.T + c + tr
            d = float(np.linalg.norm(fp["pos"][t] - e))
            if not d <= TOL_GEO:
                out.append(f"target atom {t}: got {fp['pos'][t].tolist()} expected the rigid image of a + s(p - a) = "
                           f"{e.tolist()} (off by {d:.3g} nm)")
        else:
            d0 = scale * float(np.linalg.norm(p - refpos[a]))
            d1 = float(np.linalg.norm(fp["pos"][t] - argpos[a]))
            if not abs(d1 - d0) <= TOL_GEO:
                out.append(f"target atom {t}: distance to the argument's anchor atom {a} is {d1:.12g}, "
                           f"expected s*|p - a| = {d0:.12g}")
    return out[:3]


def freeze(o, depth=0):
    """Hashable deep image of the map's instance state (numpy aware)."""
    if depth > 6:
        return ("deep",)
    if isinstance(o, np.ndarray):
        return ("nd", o.shape, o.tobytes())
    if isinstance(o, dict):
        return ("dict", tuple(sorted(((repr(k), freeze(v, depth + 1)) for k, v in o.items()), key=lambda kv: kv[0])))
    if isinstance(o, (list, tuple)):
        return (type(o).__name__, tuple(freeze(v, depth + 1) for v in o))
    if isinstance(o, (int, float, str, bool, type(None), np.floating, np.integer)):
        return ("v", repr(o))
    if hasattr(o, "atoms_positions"):
        try:
            return ("mol", id(o), np.asarray(o.atoms_positions, dtype=float).tobytes())
        except Exception:
            return ("obj", id(o))
    return ("obj", id(o))


def map_state(em):
    """Instance state of the map that can carry mapping data (containers, arrays, molecules, floats);
    plain int/bool/str attributes (counters, flags) are ignored."""
    return freeze({k: v for k, v in vars(em).items()
                   if not isinstance(v, (bool, int, str, type(None), np.integer))})


# ---------------------------------------------------------------------------
# the interpreter: one map, one op list, every clause evaluated after every op

class Tally:
    def __init__(self):
        self.evals = {}
        self.first = {}      # kind -> cex-ready dict
        self.nfail = {}
        self.nontrivial = 0
        self.runs = 0
        self.sample = None

    def ev(self, kind, n=1):
        self.evals[kind] = self.evals.get(kind, 0) + n


class Run:
    def __init__(self, world, scale, confs, map_factory=None, needed=None):
        from gaddlemaps import ExchangeMap
        self.world, self.scale = world, float(scale)
        self.confs = confs
        self.fails = []          # (kind, step, detail)
        self.evals = {}
        self.step = -1
        self.ref, self.tgt = world.new_ref(), world.new_tgt()
        self.tgt_fp = fingerprint(self.tgt)
        self.args, self.arg_resids, self.arg_rigid = [], [], []
        for k, c in enumerate(confs):
            if needed is not None and k not in needed:
                # argument objects that no operation of this sequence touches are not built
                self.args.append(None)
                self.arg_resids.append(None)
                self.arg_rigid.append(None)
            elif c.get("mode") == "REF":
                self.args.append(self.ref)
                self.arg_resids.append([int(r) for r in self.ref.resids])
                self.arg_rigid.append({"R": np.eye(3).tolist(), "t": [0, 0, 0], "c": [0, 0, 0]})
            else:
                self.args.append(world.new_arg(c["pos"], c["resids"]))
                self.arg_resids.append(list(c["resids"]))
                self.arg_rigid.append(c.get("rigid"))
        self.tracked = {"ref": self.ref, "tgt": self.tgt}
        for k, a in enumerate(self.args):
            if a is not self.ref and a is not None:
                self.tracked[f"arg{k}"] = a
        self.snaps = {k: snap(v) for k, v in self.tracked.items()}
        self.results = []
        self.mutated = False      # a construction molecule was changed after construction
        self.freed_ids = set()     # addresses of accepted arguments that are dead now
        self.stats = {"temporaries": 0, "temporaries_not_freed": 0, "fresh_rejected_objects": 0,
                      "rejected_at_address_of_dead_accepted_argument": 0, "reuse_by_kind": {}}
        self.rejected_since_call = False
        factory = map_factory or (lambda r, t, s: ExchangeMap(r, t, scale_factor=s))
        self.em = factory(self.ref, self.tgt, self.scale)
        self._frames(init=True)

    # -- bookkeeping
    def _ev(self, kind):
        self.evals[kind] = self.evals.get(kind, 0) + 1

    def _fail(self, kind, detail):
        self.fails.append((kind, self.step, detail))

    def _frames(self, init=False):
        for label, obj in list(self.tracked.items()):
            kind = "frame_con" if label in ("ref", "tgt") else ("frame_prev" if label.startswith("res") else "frame_arg")
            self._ev(kind)
            try:
                now = snap(obj)
            except Exception as e:
                self._fail(kind, f"{label} can no longer be read: {_exc(e)}")
                continue
            d = snap_diff(self.snaps[label], now)
            if d:
                what = {"ref": "the construction reference", "tgt": "the construction target"}.get(
                    label, "previously returned molecule #" + label[3:] if label.startswith("res") else
                    "argument " + label)
                when = "by the construction of the map" if init else f"by op {self.step}"
                self._fail(kind, f"{what} was altered {when}: " + "; ".join(d))
                self.snaps[label] = now

    def cur_pos(self, k):
        label = "ref" if self.args[k] is self.ref else f"arg{k}"
        return self.snaps[label][0]

    # -- ops
    def do(self, op):
        self.step += 1
        kind = op[0]
        if kind == "call":
            self._call(int(op[1]))
        elif kind == "rej":
            self._rej(op[1])
        elif kind == "mut":
            self._mut(op[1], op[2], op[3])
        elif kind == "setarg":
            self._setarg(int(op[1]), op[2])
        elif kind == "tmpcall":
            self._tmpcall(int(op[1]))
        elif kind == "fresh_rej":
            self._fresh_rej(op[1], int(op[2]))
        else:
            raise HarnessError(f"unknown op {op}")

    def _result_kind(self):
        if self.mutated:
            return "later"
        if self.rejected_since_call:
            return "usable"
        return "history"

    def _call(self, k):
        arg = self.args[k]
        P = self.cur_pos(k).copy()
        resids = self.arg_resids[k]
        rk = self._result_kind()
        self._ev(rk)
        try:
            with _quiet():
                res = self.em(arg)
            fp = fingerprint(res)
        except Exception as e:
            self._fail(rk, f"mapping argument #{k} (same species as the reference) raised {_exc(e)}; a result is required")
            self._frames()
            self.rejected_since_call = False
            return
        self.rejected_since_call = False
        exp = self.world.expected(self.scale, P, resids)
        d = fp_diff(fp, exp)
        if d:
            ctx = {"history": "after the preceding calls", "later": "after the construction molecules were moved",
                   "usable": "after a rejected argument"}[rk]
            self._fail(rk, f"result for argument #{k} {ctx} differs from what a freshly built map returns: " + "; ".join(d[:3]))
        self._ev("shape")
        if self.world.tgtspec is not None:
            d = shape_diff(fp, self.world.tgtspec, resids)
        else:
            d = shape_diff_shipped(fp, self.tgt_fp, resids)
        if d:
            self._fail("shape", f"result for argument #{k}: " + "; ".join(d[:3]))
        if self.world.refspec is not None:
            rigid = self.arg_rigid[k]
            self._ev("follows")
            d = follows_diff(self.world, self.scale, fp, P, rigid)
            if d:
                self._fail("follows", f"result for argument #{k}: " + "; ".join(d[:2]))
        self._frames()
        label = f"res{len(self.results)}"
        already = [l for l, o in self.tracked.items() if o is res]
        self.results.append(res)
        if not already:
            self.tracked[label] = res
            self.snaps[label] = snap(res)

    def bad_arg(self, kind):
        if kind == "None":
            return None
        if kind == "Residue":
            return self.args[-1].residues[0]
        if kind == "ndarray":
            return np.array(self.cur_pos(len(self.args) - 1))
        if kind == "MoleculeTop":
            return self.ref.molecule_top
        if kind == "str":
            return "molecule"
        return self.world.new_other(kind)

    def _rej(self, kind):
        bad = self.bad_arg(kind)
        is_mol = hasattr(bad, "atoms_positions") and kind not in ("Residue",)
        if is_mol:
            self.tracked[f"argrej{self.step}"] = bad
            self.snaps[f"argrej{self.step}"] = snap(bad)
        try:
            before = map_state(self.em)
        except Exception:
            before = None
        self._ev("typeerror")
        try:
            with _quiet():
                r = self.em(bad)
            self._fail("typeerror", f"argument of kind {kind} was accepted (returned {type(r).__name__}); expected TypeError")
            if hasattr(r, "atoms_positions"):
                self.results.append(r)
        except TypeError:
            pass
        except Exception as e:
            self._fail("typeerror", f"argument of kind {kind} raised {_exc(e)}; expected TypeError")
        if before is not None:
            self._ev("internal")
            try:
                after = map_state(self.em)
                if after != before:
                    ch = _state_changes(before, after)
                    self._fail("internal", f"rejected argument of kind {kind} changed the map's instance state: {ch}")
            except Exception:
                pass
        self._frames()
        self.rejected_since_call = True

    def _tmpcall(self, k):
        """Map a TEMPORARY argument (conformation k of the pool, new object) and drop every reference to it."""
        c = self.confs[k]
        resids = list(c["resids"])
        a = self.world.fresh_arg(c["pos"], resids)
        before = snap(a)
        P = before[0].copy()
        rk = self._result_kind()
        self._ev(rk)
        res = fp = None
        try:
            with _quiet():
                res = self.em(a)
            fp = fingerprint(res)
        except Exception as e:
            self._fail(rk, f"mapping a temporary argument (conformation #{k}, same species as the reference) raised "
                           f"{_exc(e)}; a result is required")
        self.rejected_since_call = False
        if fp is not None:
            d = fp_diff(fp, self.world.expected(self.scale, P, resids))
            if d:
                ctx = {"history": "after the preceding calls", "later": "after the construction molecules were moved",
                       "usable": "after a rejected argument"}[rk]
                self._fail(rk, f"result for a temporary argument (conformation #{k}) {ctx} differs from what a freshly "
                               f"built map returns: " + "; ".join(d[:3]))
            self._ev("shape")
            d = (shape_diff(fp, self.world.tgtspec, resids) if self.world.tgtspec is not None
                 else shape_diff_shipped(fp, self.tgt_fp, resids))
            if d:
                self._fail("shape", f"result for a temporary argument (conformation #{k}): " + "; ".join(d[:3]))
            if self.world.refspec is not None:
                self._ev("follows")
                d = follows_diff(self.world, self.scale, fp, P, c.get("rigid"))
                if d:
                    self._fail("follows", f"result for a temporary argument (conformation #{k}): " + "; ".join(d[:2]))
        self._ev("frame_arg")
        d = snap_diff(before, snap(a))
        if d:
            self._fail("frame_arg", f"temporary argument (conformation #{k}) was altered by op {self.step}: " + "; ".join(d))
        self._frames()
        # the caller lets the argument (and the result) die
        self.stats["temporaries"] += 1
        self.freed_ids.add(id(a))
        wr = weakref.ref(a)
        del a, res
        if wr() is not None or self.stats["temporaries"] % 25 == 0:
            gc.collect()
        if wr() is not None:
            self.stats["temporaries_not_freed"] += 1

    def _fresh_rej(self, kind, count):
        """`count` freshly allocated rejected arguments of one kind in a row (all alive during the batch)."""
        objs = []
        for i in range(count):
            bad = self.world.fresh_other(kind, self.step * 100 + i)
            objs.append(bad)
            self.stats["fresh_rejected_objects"] += 1
            reused = id(bad) in self.freed_ids
            if reused:
                self.stats["rejected_at_address_of_dead_accepted_argument"] += 1
                self.stats["reuse_by_kind"][kind] = self.stats["reuse_by_kind"].get(kind, 0) + 1
            is_mol = hasattr(bad, "atoms_positions") and kind != "Residue"
            before = snap(bad) if is_mol else None
            note = " (allocated at the address of an accepted argument that is dead now)" if reused else ""
            self._ev("typeerror")
            try:
                with _quiet():
                    r = self.em(bad)
                self._fail("typeerror", f"fresh argument of kind {kind}{note} was accepted (returned {type(r).__name__}); "
                                        f"expected TypeError")
                del r
            except TypeError:
                pass
            except Exception as e:
                self._fail("typeerror", f"fresh argument of kind {kind}{note} raised {_exc(e)}; expected TypeError")
            if is_mol:
                self._ev("frame_arg")
                try:
                    d = snap_diff(before, snap(bad))
                except Exception as e:
                    d = [f"cannot be read any more: {_exc(e)}"]
                if d:
                    self._fail("frame_arg", f"rejected fresh argument of kind {kind} was altered by op {self.step}: " + "; ".join(d))
        self._frames()
        self.rejected_since_call = True
        del objs

    def _mut(self, who, how, params):
        mol = self.ref if who == "ref" else self.tgt
        p = np.array(params, dtype=float)
        with _quiet():
            if how == "move":
                mol.move(p)
            elif how == "move_to":
                mol.move_to(p)
            elif how == "rotate":
                mol.rotate(p)
            elif how == "set":
                mol.atoms_positions = p
            elif how == "inplace":
                # the caller edits the coordinate arrays of the atoms in place
                for res in mol.residues:
                    for at in res:
                        at.position += p
            else:
                raise HarnessError(how)
        self.snaps[who] = snap(mol)      # the caller's own change: new truth for the frame clauses
        self.mutated = True
        if who == "ref":
            for k, a in enumerate(self.args):
                if a is self.ref:
                    self.arg_rigid[k] = None      # only the anchor-distance oracle from now on
        self._frames()

    def _setarg(self, k, pos):
        a = self.args[k]
        if a is self.ref:
            return self._mut("ref", "set", pos)
        World.place(a, pos)
        self.snaps[f"arg{k}"] = snap(a)
        self.arg_rigid[k] = None
        self._frames()


def _state_changes(before, after):
    try:
        b, a = dict(before[1]), dict(after[1])
        return "attributes " + ", ".join(sorted(k for k in set(a) | set(b) if a.get(k) != b.get(k)))
    except Exception:
        return "state differs"


def run_ops(world, scale, confs, ops, map_factory=None, stats=None):
    """Returns (fails, evals).  `fails` = [(kind, step, detail)]."""
    needed = {int(op[1]) for op in ops if op[0] in ("call", "setarg")}
    if any(op[0] == "rej" and op[1] in ("Residue", "ndarray") for op in ops):
        needed.add(len(confs) - 1)
    run = Run(world, scale, confs, map_factory=map_factory, needed=needed)
    for op in ops:
        run.do(op)
    if stats is not None:
        for k, v in run.stats.items():
            if isinstance(v, dict):
                d = stats.setdefault(k, {})
                for kk, vv in v.items():
                    d[kk] = d.get(kk, 0) + vv
            else:
                stats[k] = stats.get(k, 0) + v
    return run.fails, run.evals


def _feed(tally, world, scale, confs, ops, family, nontrivial=True, stats=None, trim=True):
    fails, evals = run_ops(world, scale, confs, ops, stats=stats)
    tally.runs += 1
    if nontrivial:
        tally.nontrivial += 1
    for k, n in evals.items():
        tally.ev(k, n)
    seen = set()
    for kind, step, detail in fails:
        if kind in seen:
            continue
        seen.add(kind)
        tally.nfail[kind] = tally.nfail.get(kind, 0) + 1
        if kind not in tally.first:
            tally.first[kind] = {"fn": "b04:ops", "world": world.describe(), "scale": scale, "confs": confs,
                                 "ops": _jsonable(ops[:step + 1] if trim else ops), "clause": kind, "step": step, "family": family,
                                 "detail": detail, "signature": kind}
    if tally.sample is None:
        tally.sample = {"pair": world.desc.get("pair", world.desc.get("name")), "scale": scale, "ops": _jsonable(ops)[:12],
                        "pool": [c.get("mode") for c in confs]}


def _jsonable(o):
    if isinstance(o, np.ndarray):
        return o.tolist()
    if isinstance(o, (list, tuple)):
        return [_jsonable(x) for x in o]
    if isinstance(o, (np.floating,)):
        return float(o)
    if isinstance(o, (np.integer,)):
        return int(o)
    return o


def _short_ops(ops):
    t = str(ops)
    return t if len(t) < 300 else "... " + t[-300:]


def _obligations(tally, family, tag, secs):
    out = []
    for kind, n in sorted(tally.evals.items()):
        oid = f"{PROP}/{FN}/{CLAUSES[kind]}/{family}/{tag}"
        if kind in tally.first and kind == "internal":
            # informational only: private state of the map is not part of the statement ("leaves the map fully
            # usable" is decided by ensures.map_fully_usable_after_rejected_argument); never a violation
            cex = tally.first[kind]
            out.append(ob(oid, "undecided", kind="bounded", engine="smallscope", backend="runtime-contract", secs=secs,
                          evaluations=n, nontrivial=tally.nontrivial,
                          reason=f"informational, not a property violation: {tally.nfail[kind]} of {tally.runs} sequences: "
                                 f"{cex['detail']} (not observable through the public API; the statement's clause "
                                 f"'{CLAUSES['usable']}' decides)", sample=tally.sample))
        elif kind in tally.first:
            cex = tally.first[kind]
            out.append(ob(oid, "refuted", kind="bounded", engine="smallscope", backend="runtime-contract", secs=secs,
                          evaluations=n, nontrivial=tally.nontrivial,
                          reason=f"{tally.nfail[kind]} of {tally.runs} call sequences violate the clause; first: ops "
                                 f"{_short_ops(cex['ops'][:cex['step'] + 1])}: {cex['detail']}",
                          cex=cex, sample=tally.sample))
        else:
            out.append(ob(oid, "discharged", kind="bounded", engine="smallscope", backend="runtime-contract", secs=secs,
                          evaluations=n, nontrivial=tally.nontrivial, sample=tally.sample))
    return out


# ---------------------------------------------------------------------------
# scope families

def mutation_ops(world, key):
    """Coordinate changes of the construction molecules the caller may make after building the map."""
    rng = _rng("mut", key)
    nr, nt = len(world.refpos), len(world.tgtpos)
    R1 = _rot([1.0, 2.0, -0.5], 1.1)
    R2 = _rot([-0.3, 0.4, 1.0], 2.3)
    blob_r = (world.refpos.mean(axis=0) + rng.uniform(-0.6, 0.6, size=(nr, 3))).tolist()
    blob_t = (world.tgtpos.mean(axis=0) + rng.uniform(-0.6, 0.6, size=(nt, 3))).tolist()
    return [
        [["mut", "ref", "move", [0.7, -0.4, 1.3]]],
        [["mut", "ref", "rotate", R1.tolist()]],
        [["mut", "ref", "set", blob_r]],
        [["mut", "ref", "move_to", [5.0, 5.0, 5.0]]],
        [["mut", "tgt", "move", [-0.9, 0.6, 0.2]]],
        [["mut", "tgt", "rotate", R2.tolist()]],
        [["mut", "tgt", "set", blob_t]],
        [["mut", "tgt", "move_to", [0.0, 0.0, 0.0]]],
        [["mut", "tgt", "set", np.zeros((nt, 3)).tolist()]],
        [["mut", "ref", "inplace", [0.3, 0.3, -0.6]], ["mut", "tgt", "inplace", [-1.0, 0.5, 0.25]]],
        [["mut", "ref", "set", blob_r], ["mut", "tgt", "rotate", R1.tolist()], ["mut", "tgt", "move", [2.0, 2.0, -2.0]]],
    ]


def random_ops(world, rng, n_pool, length):
    """A seeded random history: calls (with repeats), rejected arguments, coordinate changes of the
    construction molecules and of pool arguments (between calls)."""
    ops = []
    nr, nt = len(world.refpos), len(world.tgtpos)
    rej_kinds = list(NON_MOLECULES) + list(world.species_kinds)
    if length >= 12:
        # every kind of operation occurs at least once in a long history (same obligation set for every seed)
        ops = [["call", rng.randrange(n_pool)], ["rej", rng.choice(rej_kinds)], ["call", rng.randrange(n_pool)],
               ["mut", "tgt", "move", [round(rng.uniform(-2, 2), 3) for _ in range(3)]], ["call", rng.randrange(n_pool)]]
    while len(ops) < length:
        x = rng.random()
        if x < 0.55 or not ops:
            k = rng.randrange(n_pool)
            ops.append(["call", k])
            if rng.random() < 0.2 and len(ops) < length:
                ops.append(["call", k])          # immediate repeat of the same object
        elif x < 0.72:
            ops.append(["rej", rng.choice(rej_kinds)])
        elif x < 0.88:
            who = rng.choice(["ref", "tgt"])
            n = nr if who == "ref" else nt
            how = rng.choice(["move", "rotate", "set", "move_to", "inplace"])
            if how in ("move", "move_to", "inplace"):
                p = [round(rng.uniform(-4, 4), 3) for _ in range(3)]
            elif how == "rotate":
                p = _rot([rng.gauss(0, 1) for _ in range(3)], rng.uniform(0.2, 3.0)).tolist()
            else:
                p = [[round(rng.uniform(0, 4), 4) for _ in range(3)] for _ in range(n)]
            ops.append(["mut", who, how, p])
        else:
            k = rng.randrange(n_pool)
            nrng = np.random.default_rng(rng.randrange(1 << 30))
            for _ in range(200):
                Q = world.refpos + nrng.normal(0, 0.06, size=world.refpos.shape)
                if world.refspec is None or _frames_ok(world.refspec, Q):
                    break
            R = _rot(nrng.normal(size=3), float(nrng.uniform(0.1, 3.0)))
            Q = (Q - Q.mean(axis=0)) @ R.T + nrng.uniform(-3, 3, 3)
            ops.append(["setarg", k, Q.tolist()])
    return ops[:length]


def lifetime_ops(world, n_pool, rounds, phase):
    """Accepted arguments that die, then freshly allocated rejected arguments of every kind (several in a row),
    then the next valid call; now and then a call with a long-lived pool argument."""
    kinds = list(NON_MOLECULES) + list(world.species_kinds)
    mol_kinds = list(world.species_kinds)
    ops = []
    for r in range(rounds):
        ops.append(["tmpcall", 1 + (r + phase) % (n_pool - 1)])
        if r % 7 == 3:
            ops.append(["tmpcall", 1 + (r + phase + 1) % (n_pool - 1)])      # two dead arguments before the batch
        # molecule kinds twice as often as non-molecules (same size class as the dead argument)
        kind = mol_kinds[(r // 3 + phase) % len(mol_kinds)] if r % 3 != 2 else kinds[(r // 3 + phase) % len(kinds)]
        ops.append(["fresh_rej", kind, 4])
        if r % 10 == 9:
            ops.append(["call", (r // 10) % n_pool])
    ops.append(["tmpcall", 1])
    return ops


def _lifetimes_family(world, scale, confs, n_seq, rounds, tag, secs_from):
    t = Tally()
    stats = {}
    for q in range(n_seq):
        _feed(t, world, scale, confs, lifetime_ops(world, len(confs), rounds, q), "argument-lifetimes", stats=stats, trim=False)   # the whole allocate/free pattern is the failing input
    if t.sample is not None:
        t.sample = dict(t.sample, ops=t.sample["ops"][:8], **{"lifetimes": stats, "sequences": n_seq, "rounds_per_sequence": rounds})
    out = _obligations(t, "argument-lifetimes", tag, time.time() - secs_from)
    reused = stats.get("rejected_at_address_of_dead_accepted_argument", 0)
    out.append(ob(f"{PROP}/{FN}/guard.lifetimes.rejected-object-at-address-of-dead-accepted-argument-observed/{tag}",
                  "discharged" if reused > 0 else "undecided", kind="guard", engine="smallscope", backend="runtime-contract",
                  expect="discharged", evaluations=stats.get("fresh_rejected_objects", 0), nontrivial=reused,
                  reason=f"address reuse observed for {reused} of {stats.get('fresh_rejected_objects', 0)} fresh rejected objects "
                         f"({stats.get('reuse_by_kind')}); {stats.get('temporaries', 0)} temporaries, "
                         f"{stats.get('temporaries_not_freed', 0)} not freed", sample=stats))
    return out


def task_pair(rkey, tkey, scale, tier, seed):
    """All families for one generated reference/target pair and one scale factor."""
    t0 = time.time()
    tag = f"{rkey}-{tkey}@s={scale}"
    out = []
    try:
        desc = gen_world_desc(rkey, tkey)
        world = World(desc)
    except Exception as e:
        return [ob(f"{PROP}/{FN}/harness/{tag}", "undecided", kind="bounded", engine="smallscope",
                   backend="runtime-contract", reason=f"generator failed: {_exc(e)}")]
    try:
        thorough = tier != "quick"
        L = 4 if thorough else 3
        n_pool = 4
        confs = gen_confs((rkey, tkey), world.refspec, world.refpos, n_pool)
        fams = []
        # A: every call sequence up to length L over the pool (with repeats)
        ta = Tally()
        for n in range(1, L + 1):
            for seq in itertools.product(range(n_pool), repeat=n):
                _feed(ta, world, scale, confs, [["call", k] for k in seq], f"seq<={L}", nontrivial=len(set(seq)) > 1)
        fams.append((f"seq<={L}", ta))
        # B: rejected arguments interleaved
        tb = Tally()
        kinds = list(NON_MOLECULES) + list(world.species_kinds)
        for kind in kinds:
            for j in range(n_pool):
                _feed(tb, world, scale, confs, [["rej", kind], ["call", j]], "rejected")
                for i in range(n_pool):
                    _feed(tb, world, scale, confs, [["call", i], ["rej", kind], ["call", j]], "rejected")
        _feed(tb, world, scale, confs, [["rej", k] for k in kinds] + [["call", 1]] + [["rej", k] for k in kinds[::-1]]
              + [["call", 2], ["call", 1]], "rejected")
        fams.append(("rejected", tb))
        # C: later coordinate changes of the construction molecules
        tc = Tally()
        for mops in mutation_ops(world, (rkey, tkey)):
            for j in range(n_pool):
                _feed(tc, world, scale, confs, mops + [["call", j]], "later-changes")
                for i in range(n_pool):
                    _feed(tc, world, scale, confs, [["call", i]] + mops + [["call", j]], "later-changes")
        fams.append(("later-changes", tc))
        # D: seeded random histories up to length 30
        td = Tally()
        rng = random.Random(zlib.crc32(repr((rkey, tkey, scale, seed)).encode()))
        n_rand = 12 if thorough else 3
        for r in range(n_rand):
            length = 30 if r == 0 else rng.randrange(8, 31)
            pool = gen_confs((rkey, tkey, "rand", r), world.refspec, world.refpos, 4,
                             rng=np.random.default_rng(rng.randrange(1 << 30)), first="REF" if r % 2 == 0 else "copy")
            _feed(td, world, scale, pool, random_ops(world, rng, len(pool), length), "random<=30")
        fams.append(("random<=30", td))
        secs = time.time() - t0
        for fam, t in fams:
            out += _obligations(t, fam, tag, secs / len(fams))
        # E: argument lifetimes (accepted arguments die; rejected ones are allocated afresh, possibly at their address)
        out += _lifetimes_family(world, scale, confs, 4 if thorough else 2, 150 if thorough else 80, tag, time.time())
        out += guards(world, scale, confs, tag)
    except HarnessError as e:
        out.append(ob(f"{PROP}/{FN}/harness/{tag}", "undecided", kind="bounded", engine="smallscope",
                      backend="runtime-contract", reason=f"harness: {_exc(e)}"))
    finally:
        world.close()
    return out


def task_shipped(name, scale, seed):
    t0 = time.time()
    tag = f"shipped-{name}@s={scale}"
    out = []
    try:
        world = World({"kind": "shipped", "name": name, "pair": f"shipped-{name}"})
    except Exception as e:
        return [ob(f"{PROP}/{FN}/harness/{tag}", "undecided", kind="bounded", engine="smallscope",
                   backend="runtime-contract", reason=f"shipped files could not be loaded: {_exc(e)}")]
    try:
        nrng = _rng("shipped", name)
        confs = [{"mode": "REF"}]
        if name == "BMIM":
            for k in (1, 2, 3):
                pos, resids = world.bmim_positions(k)
                confs.append({"mode": "system-molecule", "pos": pos, "resids": resids})
        R = _rot([0.3, -1.0, 0.7], 1.9)
        c = world.refpos.mean(axis=0)
        confs.append({"mode": "rigid", "pos": ((world.refpos - c) @ R.T + c + np.array([1.5, -2.0, 0.5])).tolist(), "resids": [41]})
        confs.append({"mode": "deform", "pos": (world.refpos + nrng.normal(0, 0.02, size=world.refpos.shape)).tolist(), "resids": [52]})
        n_pool = len(confs)
        fams = []
        ta = Tally()
        for n in range(1, 4):
            for seq in itertools.product(range(n_pool), repeat=n):
                _feed(ta, world, scale, confs, [["call", k] for k in seq], "seq<=3", nontrivial=len(set(seq)) > 1)
        fams.append(("seq<=3", ta))
        tb = Tally()
        for kind in list(NON_MOLECULES) + list(world.species_kinds):
            for j in range(n_pool):
                _feed(tb, world, scale, confs, [["call", (j + 1) % n_pool], ["rej", kind], ["call", j]], "rejected")
        fams.append(("rejected", tb))
        tc = Tally()
        for mops in mutation_ops(world, name):
            for j in range(n_pool):
                _feed(tc, world, scale, confs, [["call", (j + 2) % n_pool]] + mops + [["call", j]], "later-changes")
        fams.append(("later-changes", tc))
        td = Tally()
        rng = random.Random(zlib.crc32(repr((name, scale, seed)).encode()))
        for r in range(6):
            _feed(td, world, scale, confs, random_ops(world, rng, n_pool, 30 if r == 0 else rng.randrange(8, 31)), "random<=30")
        fams.append(("random<=30", td))
        if name == "BMIM":
            # the way Manager.extrapolate_system uses a map: one map, every molecule of the box in file order
            te = Tally()
            big = [{"mode": "REF"}]
            for k in range(1, 120):
                pos, resids = world.bmim_positions(k)
                big.append({"mode": "system-molecule", "pos": pos, "resids": resids})
            order = list(range(len(big)))
            _feed(te, world, scale, big, [["call", k] for k in order], "box-120-molecules")
            rng.shuffle(order)
            _feed(te, world, scale, big, [["call", k] for k in order[:60]] + [["rej", "target"]] +
                  [["call", k] for k in order[60:]], "box-120-molecules")
            fams.append(("box-120-molecules", te))
        secs = time.time() - t0
        for fam, t in fams:
            out += _obligations(t, fam, tag, secs / len(fams))
        out += _lifetimes_family(world, scale, confs, 2, 100, tag, time.time())
        out += guards(world, scale, confs, tag)
    except HarnessError as e:
        out.append(ob(f"{PROP}/{FN}/harness/{tag}", "undecided", kind="bounded", engine="smallscope",
                      backend="runtime-contract", reason=f"harness: {_exc(e)}"))
    finally:
        world.close()
    return out


# ---------------------------------------------------------------------------
# must-fail / vacuity guards (same clause evaluators, deliberately wrong clause or corrupted observation)

class _FakeMap:
    """Stand-ins for a broken map, run through the same interpreter as the real one (never used as oracle)."""

    def __init__(self, real, tgt, mode):
        self._real, self._tgt, self._mode = real, tgt, mode
        self._first = None
        self._prev = None

    def __call__(self, x):
        from gaddlemaps.components import Molecule
        m = self._mode
        if m == "valueerror":
            try:
                return self._real(x)
            except TypeError as e:
                raise ValueError(str(e))
        if m == "accept_any":
            try:
                return self._real(x)
            except TypeError:
                if isinstance(x, Molecule):
                    return x.copy()
                raise
        r = self._real(x)
        if m == "first_result_forever":
            if self._first is None:
                self._first = np.array(r.atoms_positions)
            r.atoms_positions = self._first
        elif m == "writes_argument":
            x.atoms_positions = np.asarray(x.atoms_positions) + 1e-9
        elif m == "writes_target":
            self._tgt.atoms_positions = np.asarray(r.atoms_positions)
        elif m == "writes_previous":
            if self._prev is not None:
                self._prev.atoms_positions = np.asarray(self._prev.atoms_positions) + 1e-6
            self._prev = r
        elif m == "target_resids":
            for res, rid in zip(r.residues, self._tgt.resids):
                res.resid = rid
        else:
            raise HarnessError(m)
        return r


def guards(world, scale, confs, tag):
    from gaddlemaps import ExchangeMap
    out = []

    def g(name, caught, note=""):
        out.append(ob(f"{PROP}/{FN}/guard.{name}/{tag}", "refuted" if caught else "discharged", kind="guard",
                      engine="smallscope", backend="runtime-contract", expect="refuted", reason=note))

    def fails_with(mode, ops, kind):
        f, _ = run_ops(world, scale, confs, ops,
                       map_factory=lambda r, t, s: _FakeMap(ExchangeMap(r, t, scale_factor=s), t, mode))
        return any(x[0] == kind for x in f)

    n = len(confs)
    a, b = 1, min(2, n - 1)
    try:
        g("must-fail.history(first result returned forever)", fails_with("first_result_forever", [["call", a], ["call", b]], "history"))
        g("must-fail.frame_argument(argument moved by 1e-9)", fails_with("writes_argument", [["call", a]], "frame_arg"))
        g("must-fail.frame_construction(result written into the target)", fails_with("writes_target", [["call", a]], "frame_con"))
        g("must-fail.frame_previous(previous result moved by 1e-6)", fails_with("writes_previous", [["call", a], ["call", b]], "frame_prev"))
        g("must-fail.shape(target's residue numbers)", fails_with("target_resids", [["call", a]], "shape"))
        g("must-fail.typeerror(ValueError instead)", fails_with("valueerror", [["rej", "None"]], "typeerror")
          and fails_with("valueerror", [["rej", "target"]], "typeerror"))
        g("must-fail.typeerror(any molecule accepted)", fails_with("accept_any", [["rej", "target"]], "typeerror"))
        # later changes are consequential: a map built AFTER the change differs from the construction-time one
        ref, tgt = world.new_ref(), world.new_tgt()
        arg = world.new_arg(confs[a]["pos"], confs[a]["resids"])
        tgt.move(np.array([0.4, 0.0, 0.0]))
        late = fingerprint(ExchangeMap(ref, tgt, scale_factor=scale)(arg))
        exp = world.expected(scale, confs[a]["pos"], confs[a]["resids"])
        g("must-fail.later(map built after moving the target)", bool(fp_diff(late, exp)))
        # pool is discriminating: two different conformations have different results
        ea = world.expected(scale, confs[a]["pos"], confs[a]["resids"])
        eb = world.expected(scale, confs[b]["pos"], confs[b]["resids"])
        g("must-fail.pool-discriminates(results of two conformations compared)", bool(fp_diff(ea, eb)))
        if world.refspec is not None:
            fp = world.expected(scale, confs[a]["pos"], confs[a]["resids"])
            wrong = follows_diff(world, scale + 0.25, fp, confs[a]["pos"], confs[a].get("rigid"))
            on_anchor = all(np.linalg.norm(p - world.refpos[nearest_anchor(world.refspec, world.refpos, p)[0]]) < 1e-9
                            for p in world.tgtpos)
            g("must-fail.follows(wrong scale factor)", bool(wrong) or on_anchor)
    except Exception as e:
        out.append(ob(f"{PROP}/{FN}/guard.harness/{tag}", "undecided", kind="guard", engine="smallscope",
                      backend="runtime-contract", expect="refuted", reason=f"guard harness: {_exc(e)}"))
    return out


# ---------------------------------------------------------------------------
# module interface

def bounded_info():
    return {
        "functions": ["gaddlemaps/_exchage_map.py::ExchangeMap.__init__", "gaddlemaps/_exchage_map.py::ExchangeMap.__call__"],
        "stubs": [],
        "trusted_base": ["CPython + numpy executing the real ExchangeMap / Molecule on generated and shipped files",
                         "the generator of contracts/b04_history.py (species tables, .gro/.itp writers, conformations)",
                         "Molecule.from_files, atoms_positions/resid setters, move/rotate/move_to used by the harness to "
                         "place molecules and to play the caller's later changes (read back after every use)"],
        "assumptions": [
            "references have >= 3 atoms and >= 1 atom with two bonds (the property's quantifier); generic (non-collinear, "
            "distinct) geometries; nearest-anchor ties excluded by the generator",
            "'later changes to the molecules the map was built from' = coordinate changes (move, rotate, move_to, "
            "atoms_positions, in-place edits of the atoms' position arrays); later renaming of atoms/residues of the construction molecules is outside the statement",
            "'the same' result = equal atom count, names, residue names, residue numbers and coordinates within 1e-12 nm",
            "'the argument's residue numbers' needs as many residues in the target as in the reference (Molecule.resids "
            "setter): only such pairs are generated",
            "other species = other molecule name, or same name with other atom names / atom count; arguments of the same "
            "species whose topology residue number was changed on an independent topology copy are not generated",
            "frame clauses compare coordinates, velocities and atom ids bit for bit",
        ],
        "explanation": (
            "Bounded run-time contract checking (smallscope) of the real ExchangeMap on real Molecule objects: 14 generated "
            "reference/target pairs (references: chain/ring/star/branched, 3..5 atoms, single- and multi-residue; targets 1..6 "
            "atoms, single- and multi-residue) x scale {0.5, 1.0}, plus (thorough) shipped BMIM CG->AA and BF4 AA->CG.  Per "
            "pair: EVERY call sequence up to length 3 (quick) / 4 (thorough) over a pool of 4 argument objects (the "
            "construction reference object itself, a rigidly moved copy, a deformed copy, a moved+deformed copy), every "
            "(call i, rejected argument r, call j) and (r, call j) for 11 kinds of rejected argument (None, Residue, ndarray, "
            "MoleculeTop, str, other molecule name, other atom name, more atoms, fewer atoms, unrelated species, the target), "
            "every (call i, change m, call j) and (m, call j) for 11 coordinate changes of the construction molecules, and "
            "seeded random histories up to length 30 mixing calls, repeats, rejected arguments, changes of the construction "
            "molecules and of the arguments between calls, and the family 'argument-lifetimes': 2x80 (quick) / 4x150 "
            "(thorough) rounds per pair and scale in which accepted arguments are temporaries that die (all references "
            "dropped, gc) before 4 freshly allocated rejected arguments of one kind (all 11 kinds in turn) are offered and "
            "the next valid result is compared again -- so a rejected object can sit at the address of a dead accepted "
            "argument (observed reuse is counted in the evidence and guarded).  After every operation every clause is evaluated: result equal "
            "(1e-12) to what a freshly built, never called map on freshly loaded molecules at the construction-time "
            "coordinates returns; result shape from the generator's tables; coordinates/velocities/ids of arguments, "
            "construction molecules and ALL previously returned molecules unchanged; TypeError for rejected arguments; and a "
            "geometric oracle (rigid image of a + s(p-a) / anchor distance) so a map ignoring its argument does not pass. "
            "An informational internal-frame obligation compares the map's instance state before/after a rejected call; a "
            "mismatch is reported as undecided (private state is not part of the statement), never as a violation.  "
            "Every deciding clause observes only the public API (return values, exceptions, public accessors of the "
            "molecules).  Nothing is deductive."),
        "rule": ("one contract evaluation per (operation of a call sequence, clause); sequences are enumerated exhaustively "
                 "per family; non-trivial = sequences with at least two distinct arguments / at least one interleaved "
                 "rejected argument or change"),
        "exhaustive": True,
    }


def bounded_tasks(prop, tier, seed):
    t = []
    for rkey, tkey in PAIRS:
        for s in SCALES:
            t.append((f"b04/{rkey}-{tkey}/s={s}", task_pair, (rkey, tkey, s, tier, seed), 240.0 if tier == "quick" else 900.0))
    if tier != "quick":
        for name in SHIPPED:
            for s in SCALES:
                t.append((f"b04/shipped-{name}/s={s}", task_shipped, (name, s, seed), 900.0))
    return t


def replay(prop, cex):
    fn = str(cex.get("fn", ""))
    if not fn.startswith("b04:"):
        return None
    try:
        world = World(cex["world"])
    except Exception as e:
        return {"reproduced": False, "note": f"replay harness error {_exc(e)}", "inputs": cex}
    clause = cex.get("clause")
    stats = {}
    attempts = 0
    try:
        # "argument-lifetimes": the failing input is an allocate/free pattern (which address CPython hands to a fresh
        # object depends on the heap of the process), so the same pattern is rebuilt up to 3 times
        for attempts in range(1, (3 if cex.get("family") == "argument-lifetimes" else 1) + 1):
            fails, _ = run_ops(world, cex["scale"], cex["confs"], cex["ops"], stats=stats)
            if any(f[0] == clause for f in fails) or (not clause and fails):
                break
    except Exception as e:
        return {"reproduced": False, "note": f"replay harness error {_exc(e)}", "inputs": cex}
    finally:
        world.close()
    mine = [f for f in fails if f[0] == clause]
    extra = {}
    if cex.get("family") == "argument-lifetimes":
        extra = {"allocation_pattern": dict(stats, attempts=attempts),
                 "first_failing_op": (mine[0][1], cex["ops"][mine[0][1]]) if mine else None}
    return {**extra, "reproduced": bool(mine) if clause else bool(fails),
            "observed": mine[0][2] if mine else ([f"{k}@op{s}: {d}" for k, s, d in fails[:5]] or "every clause holds"),
            "expected": f"clause {CLAUSES.get(clause, clause)} holds after every operation of the sequence "
                        f"(real ExchangeMap, real molecules, scale {cex['scale']})",
            "violated_clauses": sorted({f[0] for f in fails}), "inputs": cex}
