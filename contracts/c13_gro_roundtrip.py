"""C13 -- writing then reading a .gro file returns the same system.

Deductive part
  * five-digit wrap: the two wrap expressions of GroFile.parse_atomlist are extracted from the AST of the real
    function on every run and evaluated on a symbolic integer n (z3 Int):  0 <= n <= 99999 => written == n;
    n >= 0 => 0 <= written <= 99999 (never more than five digits).  All integers.
  * record layout (symrun with token strings): the real parse_atomlist and parse_atomline run on records whose
    numbers are symbolic; ``format()`` of a symbolic number returns a unique marker of exactly the width the
    spec produces (precondition: the value fits the width), real str.format / slicing / strip then run natively
    and the module-level int/float of gaddlemaps.parsers are bound to contract stubs that give the symbol back
    only for an intact marker.  Post: parse(format(record)) returns the same names, the wrapped numbers and, for
    every coordinate/velocity, the value written in *that* field (within half a unit of the last decimal, the
    contract of str.format/float); line length 20 + 3w(1+vel).  Loop-free: complete for every format (w, d) =
    (d+5, d), d in 1..6, velocities on/off, name lengths 1..5 (one representative string per length, A6).
  * determine_format inverts the writer's format on such lines.
Bounded part: contracts/b13_grofile.py (real files, all titles/boxes/count modes).
"""
from __future__ import annotations

import ast
import itertools

import numpy as np
import z3

from vf import symrun as S, core, pyvc
from vf.core import ob, discharge
from . import _merge, b13_grofile

PROP = "C13"
REL = "gaddlemaps/parsers/__init__.py"


def info(prop):
    base = {
        "level": "other",
        "functions": [f"{REL}::GroFile.parse_atomlist", f"{REL}::GroFile.parse_atomline", f"{REL}::GroFile.determine_format",
                      f"{REL}::_validate_res_atom_numbers", f"{REL}::GroFile.validate_string"],
        "stubs": ["gaddlemaps.parsers.int / float (module-level names) -> contract stubs on marker strings",
                  "format() of a symbolic number -> marker of the exact field width (contract of str.format for 'Nd' and 'W.Df' when the value fits)"],
        "trusted_base": ["z3 5.1", "vf/symrun.py", "vf/pyvc.py expression evaluator", "CPython str.format / slicing / strip executed natively"],
        "assumptions": ["A3 str.format('{:Nd}') of 0 <= n < 10^N gives exactly N characters; '{:W.Df}' of a value that fits gives exactly W characters with one '.'; "
                        "float(format(x)) differs from x by at most half a unit of the last written decimal; int(format(n)) == n",
                        "A6 parametricity of names: one representative string per length 1..5",
                        "values fit the field width (precondition of the statement)"],
        "explanation": ("Wrap arithmetic: VCs over z3 integers generated from the AST of the real expressions (all n). Record layout: symbolic execution of the "
                        "real writer/reader functions with marker strings, every format and name length: proved for all numeric values that fit. "),
        "rule": "deductive: one obligation per (function, clause, format, velocities, name length)",
    }
    from . import d13_writer_vc as D
    h = D.deductive_info()
    base["functions"] = base["functions"] + h["functions"]
    base["stubs"] = base["stubs"] + h["stubs"]
    base["assumptions"] = base["assumptions"] + h["assumptions"]
    base["explanation"] = base["explanation"] + h["explanation"]
    return _merge.merged_info(base, b13_grofile)


def _P():
    import gaddlemaps.parsers as P
    return P


# ---------------------------------------------------------------------------
# wrap arithmetic from the AST


def task_wrap(seed):
    out = []
    tag = f"{PROP}/GroFile.parse_atomlist"
    try:
        fn, src, path = pyvc.load_function(REL, "GroFile.parse_atomlist")
    except pyvc.PyvcUnsupported as e:
        return [ob(f"{tag}/wrap/extraction", "undecided", engine="pyvc", reason=str(e))]
    found = {}
    for node in ast.walk(fn):
        if isinstance(node, ast.Assign) and len(node.targets) == 1 and isinstance(node.targets[0], ast.Subscript):
            t = node.targets[0]
            if isinstance(t.value, ast.Name) and t.value.id == "atominfo" and isinstance(t.slice, ast.Constant) and t.slice.value in (0, 3):
                found[t.slice.value] = node.value
    for idx, what in ((0, "residue"), (3, "atom")):
        if idx not in found:
            out.append(ob(f"{tag}/wrap/{what}_number/extraction", "undecided", engine="pyvc",
                          reason=f"no assignment to atominfo[{idx}] found in parse_atomlist"))
            continue
        n = z3.Int("n")
        it = pyvc.Interp(REL, "GroFile.parse_atomlist", {}, {}, tag)
        st = pyvc.St()

        class _AL:
            def __getitem__(self, i):
                if i == idx:
                    return S.SymReal(n)
                raise pyvc.PyvcUnsupported(f"wrap expression of field {idx} reads atomlist[{i}]")
        st.env["atomlist"] = _AL()
        it.builtins["int"] = lambda v: S.SymReal(z3.If(v.t, 1, 0)) if isinstance(v, S.SymBool) else int(v)
        it.builtins["int"].pyvc_pure = True
        try:
            with S.active(S.Ctx()):
                val = it.ev(found[idx], st)
        except (pyvc.PyvcUnsupported, S.SymError) as e:
            out.append(ob(f"{tag}/wrap/{what}_number/vc-generation", "undecided", engine="pyvc", reason=f"{type(e).__name__}: {e}"))
            continue
        w = S._num(val) if not isinstance(val, int) else z3.IntVal(val)
        src_txt = ast.unparse(found[idx])

        def cexb(m, idx=idx):
            return {"fn": "wrap", "field": idx, "n": int(m.get("n", "0")), "signature": f"wrap:{m.get('n')}"}
        out.append(discharge(f"{tag}/ensures.{what}_number_that_fits_five_digits_unchanged", [n >= 0, n <= 99999], w == n,
                             backends=("z3",), engine="pyvc", cex_builder=cexb, sample={"expression": src_txt}))
        out.append(discharge(f"{tag}/ensures.{what}_number_wrapped_into_five_columns", [n >= 0], z3.And(w >= 0, w <= 99999),
                             backends=("z3",), engine="pyvc", cex_builder=cexb, sample={"expression": src_txt}))
        out.append(core.must_fail(f"{tag}/guard.must-fail/{what}", [n >= 0], w == n, engine="pyvc"))
    return out


# ---------------------------------------------------------------------------
# record layout with token strings


class Tokens:
    def __init__(self, c):
        self.c = c
        self.by_text = {}
        self.n = 0

    def fmt(self, v: S.SymReal, spec: str):
        self.n += 1
        ch = chr(0xE000 + self.n)
        if spec.endswith("d"):
            w = int(spec[:-1])
            # contract of '{:Nd}': exactly N characters when 0 <= v < 10^N  (obligation: the written integer fits)
            self.c.oblige(f"fits_width[{spec}]", z3.And(v.t >= 0, v.t <= 10 ** w - 1))
            text = ch * w
            self.by_text[text] = ("int", v.t, None)
            return text
        if spec.endswith("f"):
            w, d = spec[:-1].split(".")
            w, d = int(w), int(d)
            text = ch * (w - d - 1) + "." + ch * d
            self.by_text[text] = ("float", v.t, d)
            return text
        raise S.SymError(f"format spec {spec!r}")

    def int_(self, s, *a):
        if isinstance(s, str) and s in self.by_text and self.by_text[s][0] == "int":
            return S.SymReal(self.by_text[s][1])
        if isinstance(s, str) and any(0xE000 <= ord(x) < 0xF000 for x in s):
            raise LayoutError(f"int() of a damaged field {s!r}")
        return int(s, *a)

    def float_(self, s):
        if isinstance(s, str) and s in self.by_text and self.by_text[s][0] == "float":
            kind, t, d = self.by_text[s]
            r = self.c.fresh("parsed")
            half = z3.Q(1, 2 * 10 ** d)
            self.c.assume(r - t <= half)
            self.c.assume(t - r <= half)
            self.c.events.append(("float", t, r, d))
            return S.SymReal(r)
        if isinstance(s, str) and any(0xE000 <= ord(x) < 0xF000 for x in s):
            raise LayoutError(f"float() of a damaged field {s!r}")
        return float(s)


class LayoutError(Exception):
    pass


NAMES = {1: "A", 2: "Ab", 3: "Ab1", 4: "Ab1c", 5: "Ab1cD"}


def check_layout(d, vel, l1, l2):
    P = _P()
    w = d + 5
    fmt = {"position": (w, d), "velocities": vel}
    sid = f"format({w},{d})/vel={int(vel)}/names{l1}x{l2}"
    tag = f"{PROP}/GroFile.parse_atomlist+parse_atomline"
    nvals = 6 if vel else 3
    cex0 = {"fn": "layout", "d": d, "vel": vel, "l1": l1, "l2": l2}

    def run(c):
        tk = Tokens(c)
        c.format_hook = tk.fmt
        resid, atomid = S.SymReal(z3.Int("resid")), S.SymReal(z3.Int("atomid"))
        vals = [S.real(f"v{k}") for k in range(nvals)]
        rec = [resid, NAMES[l1], NAMES[l2], atomid] + vals
        with S.patched(P, int=tk.int_, float=tk.float_):
            line = P.GroFile.parse_atomlist(list(rec), format_dict=dict(fmt))
            back = P.GroFile.parse_atomline(line + "\n", dict(fmt))
            det = P.GroFile.determine_format(line)
            line0 = P.GroFile.parse_atomlist(list(rec)) if (d == 3) else None
        return line, back, det, tk, line0

    pre = [z3.Int("resid") >= 0, z3.Int("atomid") >= 0]
    try:
        paths = S.explore(run, assumptions=pre, catch=(Exception,))
    except S.SymError as e:
        return [ob(f"{tag}/symbolic-run/{sid}", "undecided", engine="symrun", reason=str(e))]
    out = []
    if len(paths) != 1:
        return [ob(f"{tag}/single-path/{sid}", "undecided", engine="symrun", reason=f"{len(paths)} paths")]
    p = paths[0]
    if p.exc is not None:
        return [ob(f"{tag}/no-exception/{sid}", "refuted", engine="symrun", reason=f"real code raises {type(p.exc).__name__}: {p.exc}",
                   cex=dict(cex0, signature="raises"))]
    line, back, det, tk, line0 = p.result
    hy = p.hyps()
    bad = []
    # safety obligations: the integers handed to '{:5d}' fit five columns (this is where the wrap matters)
    for i, (name, cond, h) in enumerate(p.ctx.safety):
        v = discharge(f"{tag}/callsite.{name}#{i}/{sid}", h, cond, backends=("z3",),
                      cex_builder=lambda m: dict(cex0, signature="number-does-not-fit", resid=m.get("resid"), atomid=m.get("atomid")))
        if v["status"] != "discharged":
            bad.append(v)
    exp_len = 20 + 3 * w * (1 + int(vel))
    if len(line) != exp_len:
        bad.append(ob(f"{tag}/ensures.line_length_20_plus_3w/{sid}", "refuted", engine="symrun", backend="native-str",
                      reason=f"line has {len(line)} characters, expected {exp_len}", cex=dict(cex0, signature="length")))
    if len(back) != 4 + nvals or back[1] != NAMES[l1] or back[2] != NAMES[l2]:
        bad.append(ob(f"{tag}/ensures.names_identical/{sid}", "refuted", engine="symrun", backend="native-str",
                      reason=f"re-read names {back[1:3]!r} / {len(back)} fields", cex=dict(cex0, signature="names")))
    else:
        wr = lambda n_: n_ % 100000
        goals = []
        try:
            goals.append(("residue_number", S.T(back[0]), z3.Int("resid")))
            goals.append(("atom_number", S.T(back[3]), z3.Int("atomid")))
        except S.SymError as e:
            bad.append(ob(f"{tag}/ensures.numbers/{sid}", "refuted", engine="symrun", reason=str(e), cex=dict(cex0, signature="numbers")))
        for nm, got, orig in goals:
            v = discharge(f"{tag}/ensures.{nm}_unchanged_if_it_fits/{sid}", hy + [orig <= 99999], got == z3.ToReal(orig), backends=("z3",),
                          cex_builder=lambda m: dict(cex0, signature="number", resid=m.get("resid"), atomid=m.get("atomid")))
            if v["status"] != "discharged":
                bad.append(v)
        for k in range(nvals):
            dd = d if k < 3 else d + 1
            x = z3.Real(f"v{k}")
            try:
                got = S.T(back[4 + k])
            except S.SymError as e:
                bad.append(ob(f"{tag}/ensures.value{k}/{sid}", "refuted", engine="symrun", reason=str(e), cex=dict(cex0, signature="value")))
                continue
            half = z3.Q(1, 2 * 10 ** (d if k < 3 else dd))
            v = discharge(f"{tag}/ensures.{'coordinate' if k < 3 else 'velocity'}[{k % 3}]_is_the_value_written_in_its_field_within_half_unit/{sid}",
                          hy, z3.And(got - x <= half, x - got <= half), backends=("z3",), cex_builder=lambda m: dict(cex0, signature="value-order"))
            if v["status"] != "discharged":
                bad.append(v)
    if det != {"position": (w, d), "velocities": vel}:
        bad.append(ob(f"{PROP}/GroFile.determine_format/ensures.inverts_the_writer_format/{sid}", "refuted", engine="symrun", backend="native-str",
                      reason=f"determine_format gives {det}, written with {(w, d)}, velocities={vel}", cex=dict(cex0, signature="determine_format")))
    if bad:
        return bad
    return [ob(f"{tag}/ensures.record_layout_roundtrip/{sid}", "discharged", engine="symrun", backend="z3+native-str",
               evaluations=5 + nvals, nontrivial=5 + nvals, sample={"format": [w, d], "velocities": vel, "line_marker_layout": "".join("#" if ord(ch) >= 0xE000 else ch for ch in line)})]


def task_layout(tier, part, nparts):
    combos = [(d, vel, l1, l2) for d in range(1, 7) for vel in (False, True) for l1 in range(1, 6) for l2 in range(1, 6)]
    if tier == "quick":
        combos = [c for c in combos if (c[2], c[3]) in ((1, 1), (5, 5), (3, 4), (5, 1), (1, 5), (2, 3))]
    out = []
    for c in combos[part::nparts]:
        out += check_layout(*c)
    return out


def tasks(prop, tier, seed):
    nparts = 8
    from . import d13_writer_vc as D
    t = [("wrap/pyvc", task_wrap, (seed,), 300.0)] + list(D.deductive_tasks(prop, tier, seed))
    t += [(f"layout/part{p}", task_layout, (tier, p, nparts), 900.0) for p in range(nparts)]
    t += b13_grofile.bounded_tasks(prop, tier, seed)
    return t


def replay(prop, cex):
    if str(cex.get("fn", "")).startswith("b13:"):
        return b13_grofile.replay(prop, cex)
    if cex.get("kind") == "vc" and cex.get("fn") == "d13:vc":
        # a failed obligation of the writer's layout invariant: look for a written file that does not read back, in the bounded scope
        for name, fn, args, _lim in b13_grofile.bounded_tasks(prop, "quick", 0)[:6]:
            try:
                obs = fn(*args)
            except Exception:
                continue
            for o in obs:
                if o.get("status") == "refuted" and o.get("kind") != "guard" and o.get("cex"):
                    r = b13_grofile.replay(prop, o["cex"])
                    if r and r.get("reproduced"):
                        r["note"] = f"failed obligation {cex.get('clause') or cex.get('signature')} manifests on a real written file"
                        return r
        return {"reproduced": False, "inputs": cex, "note": "no failing file found in the bounded scope"}
    P = _P()
    if cex.get("fn") == "wrap":
        n = int(cex["n"])
        rec = [n if cex["field"] == 0 else 1, "RES", "AT", n if cex["field"] == 3 else 1, 1.0, 2.0, 3.0]
        try:
            line = P.GroFile.parse_atomlist(rec)
            back = P.GroFile.parse_atomline(line)
        except Exception as e:
            return {"reproduced": True, "observed": f"raises {type(e).__name__}: {e}", "inputs": cex}
        got = back[cex["field"]]
        bad = (len(line) != 44) or (n <= 99999 and got != n) or not (0 <= got <= 99999)
        return {"reproduced": bool(bad), "observed": {"line": line, "reread": got}, "expected": n if n <= 99999 else "<= 99999", "inputs": cex}
    if cex.get("fn") == "layout":
        d, vel = cex["d"], cex["vel"]
        w = d + 5
        fmt = {"position": (w, d), "velocities": vel}
        rng = np.random.default_rng(0)
        for trial in range(50):
            vals = [float(np.round(rng.uniform(-9, 99), d)) for _ in range(6 if vel else 3)]
            nums = [int(x) for x in (cex.get("resid") or 12, cex.get("atomid") or 99999)] if trial == 0 else [int(rng.integers(0, 100000)), int(rng.integers(0, 100000))]
            rec = [nums[0], NAMES[cex["l1"]], NAMES[cex["l2"]], nums[1]] + vals
            try:
                line = P.GroFile.parse_atomlist(rec, format_dict=fmt)
                back = P.GroFile.parse_atomline(line, fmt)
                det = P.GroFile.determine_format(line)
            except Exception as e:
                return {"reproduced": True, "observed": f"raises {type(e).__name__}: {e}", "inputs": dict(cex, record=rec)}
            ok = (len(line) == 20 + 3 * w * (1 + int(vel)) and back[0] == nums[0] and back[3] == nums[1] and back[1] == rec[1] and back[2] == rec[2]
                  and all(abs(a - b) <= 0.5 * 10 ** -d + 1e-12 for a, b in zip(back[4:], vals)) and det == fmt)
            if not ok:
                return {"reproduced": True, "observed": {"line": line, "reread": list(back), "format": det}, "inputs": dict(cex, record=rec)}
        return {"reproduced": False, "inputs": cex}
    return {"reproduced": False, "inputs": cex}
