"""C15 -- topology reader yields exactly the file's atoms and bond graph.

Contracts on the real gaddlemaps.parsers.read_topology, gaddlemaps.components.MoleculeTop,
AtomTop, are_connected and MoleculeTop.copy:

 (a) static obligation (engine pyvc-static, back end ast-callgraph): no function reachable
     from ``are_connected`` inside gaddlemaps/components/__init__.py is recursive (directly
     or mutually), so the connectivity walk has no depth that grows with the molecule.
 (b) bounded run-time contract checks (engine smallscope) on .itp texts written by the
     formatter of this module (never by the code under check); the expected name, atom list,
     bond graph and connectivity are derived from the generated specification, the shipped
     topologies are compared against an independent minimal parse.
"""
from __future__ import annotations

import ast
import contextlib
import copy as _copy
import hashlib
import io
import itertools
import os
import random
import shutil
import tempfile
import time
import warnings

from vf.core import ob

PROP = "C15"
REPO = os.environ.get("VERIF_REPO", "/repo")
COMPONENTS_INIT = os.path.join(REPO, "gaddlemaps", "components", "__init__.py")
DATA_DIR = os.path.join(REPO, "gaddlemaps", "data")

SECNAME = {"b": "bonds", "c": "constraints", "p": "pairs"}

CLAUSES = [
    ("read_topology", "ensures.loads_without_error"),
    ("MoleculeTop.__init__", "ensures.loads_without_error"),
    ("read_topology", "ensures.molecule_name"),
    ("read_topology", "ensures.atoms_in_file_order"),
    ("read_topology", "ensures.bond_pairs_exactly_listed"),
    ("MoleculeTop.__init__", "ensures.name_and_atoms_in_file_order"),
    ("MoleculeTop.__init__", "ensures.bond_sets_exactly_listed_pairs"),
    ("MoleculeTop.__init__", "ensures.bonds_symmetric"),
    ("are_connected", "ensures.true_iff_graph_connected"),
    ("MoleculeTop.copy", "ensures.equal_to_original"),
    ("MoleculeTop.copy", "ensures.independent_of_original"),
]
CLAUSE_KEYS = [f"{f}/{c}" for f, c in CLAUSES]
K_READ_OK, K_MOL_OK = CLAUSE_KEYS[0], CLAUSE_KEYS[1]
CLAUSE_KEYS = CLAUSE_KEYS[2:] + CLAUSE_KEYS[:2]     # indices 0..8 are the postcondition clauses used below
CLAUSES = CLAUSES[2:] + CLAUSES[:2]


def _info_bounded(prop):
    return {
        "level": "other",
        "functions": [
            "gaddlemaps/parsers/_top_parsers.py::read_topology",
            "gaddlemaps/parsers/_top_parsers.py::_itp_top_atoms",
            "gaddlemaps/parsers/_top_parsers.py::_parse_itp_bonds",
            "gaddlemaps/parsers/_itp_parse.py::ItpFile.__init__",
            "gaddlemaps/parsers/_itp_parse.py::ItpSection.append",
            "gaddlemaps/components/_components_top.py::MoleculeTop.__init__",
            "gaddlemaps/components/_components_top.py::MoleculeTop.copy",
            "gaddlemaps/components/_components_top.py::AtomTop.connect",
            "gaddlemaps/components/_components_top.py::AtomTop.copy",
            "gaddlemaps/components/__init__.py::are_connected",
            "gaddlemaps/components/__init__.py::_find_connected_atoms",
        ],
        "stubs": [],
        "trusted_base": ["CPython 3.12 ast module (call-graph extraction)", "CPython executing the real functions",
                         "the .itp formatter, the union-find oracle and the minimal reference parser of this module"],
        "assumptions": [
            "static obligation: only references by plain name to functions (def / name = lambda) defined in "
            "gaddlemaps/components/__init__.py are followed; calls that leave the module (builtins, list/set methods, "
            "attribute access on atoms) are not followed; every name reference inside a function body counts as a call",
            "preprocessor lines start in column 0 (as GROMACS writes them); 'ignored' is read literally: the lines "
            "between #ifdef and #endif still count",
            "not demanded by the statement, hence reported as 'undecided' and never as 'refuted': the layout of read_topology's "
            "return value and per-atom tuples, atom.index / len() / iteration protocol, attribute names, '!=' and the copy's class, "
            "are_connected on AtomTop objects built by the harness when the loaded molecule is answered correctly, anything observed "
            "only on inputs outside the quantifier ([ atoms ] after a bond section, no final newline, no mass column, bond lines "
            "without funct), and a recursive call cycle when the real code still answers chains of 1500 and 3000 atoms",
            "generated files satisfy the GROMACS line formats (atoms: nr type resnr residue atom cgnr charge [mass]; "
            "bonds/constraints/pairs: ai aj [funct [params]]); one moleculetype per file; nrexcl >= 1",
        ],
        "explanation": (
            "One deductive obligation: an AST call-graph analysis of gaddlemaps/components/__init__.py shows that no function "
            "reachable from are_connected calls itself directly or mutually (so no recursion depth grows with the molecule); if "
            "recursion is present the obligation is refuted with a 1500-atom chain topology replayed on the real code. "
            "Everything else is bounded run-time contract checking on the real read_topology / MoleculeTop / are_connected / "
            "MoleculeTop.copy: exhaustively every labelled graph on 1..4 atoms (75 graphs) x every assignment of its edges to "
            "[ bonds ]/[ constraints ]/[ pairs ] (4165 graph-split pairs) x a fixed list of decoration variants (gapped "
            "increasing numbering, residues, spacing/tabs, comment lines, commented-out content, trailing comments, blank lines, "
            "#include/#define/#ifdef lines, section order incl. atoms after bonds, extra sections angles/dihedrals/exclusions, "
            "empty and repeated sections, header styles, missing final newline; 12 variants in the quick tier, 40 in the thorough tier); "
            "the [ moleculetype ] line with a trailing comment separated by white space or glued to nrexcl (all graphs on <= 3 atoms); "
            "copy after edit: every graph on <= 4 atoms (3 decoration variants) and 4 shipped topologies, each public edit "
            "(atom name/resname/resid assignment, connect, bond removal, resnames/resids setters, molecule name) and each pair of "
            "edits applied to the loaded original, then copy() must equal the edited object and be independent of it; "
            "sampled, not exhaustive: random graphs on 5..12 atoms; chains, stars, "
            "random trees, forests and cyclic graphs of 1000..3000 atoms; the 16 shipped topologies against an independent "
            "minimal parse. Oracles (positions of the listed pairs, union-find connectivity) come from the generated "
            "specification, never from the object under check."),
        "rule": ("one evaluation = one clause on one generated .itp text; texts are distinct by construction (distinct texts "
                 "are counted by hash) and non-trivial when the molecule has at least two atoms"),
        "exhaustive": True,
    }


# ---------------------------------------------------------------------------
# (a) static obligation: no unbounded recursion below are_connected


_RECURSIVE_SRC = '''
def are_connected(atoms):
    connected_atoms = []
    _find_connected_atoms(atoms, 0, connected_atoms)
    return len(connected_atoms) == len(atoms)

def _find_connected_atoms(atoms, index, connected):
    if index not in connected:
        connected.append(index)
    for new_index in atoms[index].bonds:
        if new_index not in connected:
            _find_connected_atoms(atoms, new_index, connected)
'''

_MUTUAL_SRC = '''
def are_connected(atoms):
    seen = set()
    _visit(atoms, 0, seen)
    return len(seen) == len(atoms)

def _visit(atoms, i, seen):
    seen.add(i)
    _neighbours(atoms, i, seen)

def _neighbours(atoms, i, seen):
    for j in atoms[i].bonds:
        if j not in seen:
            _visit(atoms, j, seen)
'''

_NESTED_SRC = '''
def are_connected(atoms):
    seen = set()
    def walk(i):
        seen.add(i)
        for j in atoms[i].bonds:
            if j not in seen:
                walk(j)
    walk(0)
    return len(seen) == len(atoms)
'''


def callgraph(src):
    """name -> set of names of functions of the same module referenced in its body."""
    tree = ast.parse(src)
    funcs = {}
    for node in ast.walk(tree):
        if isinstance(node, (ast.FunctionDef, ast.AsyncFunctionDef)):
            funcs.setdefault(node.name, []).append(node)
        elif isinstance(node, ast.Assign) and isinstance(node.value, ast.Lambda):
            for t in node.targets:
                if isinstance(t, ast.Name):
                    funcs.setdefault(t.id, []).append(node.value)
    graph = {}
    for name, nodes in funcs.items():
        refs = set()
        for node in nodes:
            body = node.body if isinstance(node.body, list) else [node.body]
            extra = list(getattr(node, "decorator_list", []))
            for part in body + extra:
                for sub in ast.walk(part):
                    if isinstance(sub, ast.Name) and sub.id in funcs:
                        refs.add(sub.id)
        graph[name] = refs
    return graph


def find_recursion(graph, root):
    """Return (reachable, cycle) where cycle is a list of names f0 -> ... -> f0 or None."""
    if root not in graph:
        return None, None
    reach, order = set(), []
    stack = [root]
    while stack:
        f = stack.pop()
        if f in reach:
            continue
        reach.add(f)
        order.append(f)
        stack.extend(sorted(graph[f] - reach))
    # cycle search restricted to the reachable part (iterative colouring DFS)
    colour = {f: 0 for f in reach}
    for start in order:
        if colour[start]:
            continue
        path = [start]
        its = [iter(sorted(graph[start]))]
        colour[start] = 1
        while path:
            nxt = next(its[-1], None)
            if nxt is None:
                colour[path.pop()] = 2
                its.pop()
                continue
            if colour[nxt] == 1:
                return sorted(reach), path[path.index(nxt):] + [nxt]
            if colour[nxt] == 0:
                colour[nxt] = 1
                path.append(nxt)
                its.append(iter(sorted(graph[nxt])))
    return sorted(reach), None


def task_static(seed):
    t0 = time.time()
    oid = f"{PROP}/are_connected/no-unbounded-recursion"
    out = []
    # must-fail guards of the analyser itself
    for tag, src in (("direct", _RECURSIVE_SRC), ("mutual", _MUTUAL_SRC), ("nested", _NESTED_SRC)):
        _, cyc = find_recursion(callgraph(src), "are_connected")
        out.append(ob(f"{PROP}/are_connected/guard.must-fail.recursive-{tag}", "refuted" if cyc else "discharged",
                      kind="guard", engine="pyvc-static", backend="ast-callgraph", expect="refuted",
                      sample={"cycle": cyc}))
    try:
        with open(COMPONENTS_INIT, encoding="utf-8") as f:
            src = f.read()
        graph = callgraph(src)
    except (OSError, SyntaxError) as e:
        out.append(ob(oid, "undecided", kind="proof", engine="pyvc-static", backend="ast-callgraph",
                      reason=f"cannot analyse {COMPONENTS_INIT}: {e!r}", secs=time.time() - t0))
        return out
    reach, cyc = find_recursion(graph, "are_connected")
    if reach is None:
        out.append(ob(oid, "undecided", kind="proof", engine="pyvc-static", backend="ast-callgraph",
                      reason=f"no function are_connected defined in {COMPONENTS_INIT}", secs=time.time() - t0))
        return out
    sample = {"file": COMPONENTS_INIT, "reachable_from_are_connected": reach,
              "edges": {f: sorted(graph[f]) for f in reach}}
    if cyc is None:
        out.append(ob(oid, "discharged", kind="proof", engine="pyvc-static", backend="ast-callgraph",
                      secs=time.time() - t0, sample=sample))
        out.append(ob(f"{PROP}/are_connected/guard.callees-found", "discharged" if len(reach) >= 1 else "refuted",
                      kind="guard", engine="pyvc-static", backend="ast-callgraph", expect="discharged", sample=sample))
        return out
    # Recursion as such is not forbidden by the statement; what it demands is an answer for every size up to thousands of
    # atoms.  The cycle is a refutation only when the real code fails on a long chain; otherwise it stays undecided.
    K = "are_connected/ensures.true_iff_graph_connected"
    for n in (1500, 3000):
        spec = large_spec("chain", n, 0)
        text = fmt_itp(spec, DECOS[0])
        exp = expected_of(spec)
        try:
            fails, _, _ = evaluate(text, exp)
        except Exception as e:
            fails = {}
            sample["native_run_error"] = _exc(e)
        if K in fails:
            out.append(ob(oid, "refuted", kind="proof", engine="pyvc-static", backend="ast-callgraph", secs=time.time() - t0,
                          reason=("recursive call cycle reachable from are_connected: " + " -> ".join(cyc) +
                                  f"; the depth grows with the longest path of the bond graph (counterexample: chain of {n} atoms, "
                                  f"expected are_connected == True; real code: {fails[K]})"),
                          cex=make_cex(text, exp, K, f"chain of {n} atoms", signature=f"recursion-chain-{n}"), sample=sample))
            return out
    out.append(ob(oid, "undecided", kind="proof", engine="pyvc-static", backend="ast-callgraph", secs=time.time() - t0,
                  reason=("recursive call cycle reachable from are_connected: " + " -> ".join(cyc) + ", but the real code answers "
                          "chains of 1500 and 3000 atoms correctly; no depth bound could be established statically"),
                  sample=sample))
    return out


# ---------------------------------------------------------------------------
# generator: specification -> .itp text (own formatter)

MOLNAMES = ["MOL", "BF4", "lipid_A-2", "X"]
ANAMES = ["C1", "H2'", "OW", "N3", "CA", "HB1", "P", "Na+", "S1", "Qd", "O5*", "CL"]
TYPES = ["opls_145", "CT", "P5", "Qa", "HC", "SC1"]
RESNAMES = ["ALA", "DPPC", "W", "T5'"]
TCOM = ["qtot 0.5", "a ; b", "1 2 3", "[ bonds ]", "", "x"]
TSEP = [" ; ", ";", "\t; ", " ;"]


def numbering(scheme, n):
    if scheme == "contig":
        return list(range(1, n + 1))
    if scheme == "offset":
        return list(range(5, 5 + n))
    if scheme == "shift1":
        return list(range(2, 2 + n))
    if scheme == "big":
        return [10, 200, 3000, 40000][:n] if n <= 4 else [97 * (k + 1) for k in range(n)]
    if scheme == "gaps":
        inc = [4, 1, 12, 2, 1, 7]
        out, v = [], 3
        for k in range(n):
            out.append(v)
            v += inc[k % len(inc)]
        return out
    if scheme == "descending":          # the statement says "arbitrary" numbers: not increasing either
        return [3 * (n - k) + 1 for k in range(n)]
    if scheme == "shuffled":
        base = numbering("gaps", n)
        r = random.Random(1009 * n + 17)
        r.shuffle(base)
        return base
    raise ValueError(scheme)


def residue(scheme, k):
    if scheme == "one":
        return 1, RESNAMES[0]
    if scheme == "each":
        return [1, 3, 4, 10][k % 4] + 10 * (k // 4), RESNAMES[k % len(RESNAMES)]
    if scheme == "pairs":
        return 7 + k // 2, RESNAMES[(k // 2) % len(RESNAMES)]
    if scheme == "tens":
        return 1 + k // 10, RESNAMES[(k // 10) % len(RESNAMES)]
    raise ValueError(scheme)


def deco(**kw):
    d = dict(num="contig", res="one", sep=0, lead="", trail_ws=False, comments=0, trailing=False, blanks=False,
             prepro=0, order=0, extra=False, empty=False, repeat=False, hstyle=0, bondcols=1, flip=False, dup=False,
             final_nl=True, mass=True, molname=0)
    d.update(kw)
    return d


ORDERS = [
    ["atoms", "bonds", "constraints", "pairs", "angles", "dihedrals", "exclusions"],
    ["atoms", "pairs", "constraints", "bonds", "exclusions", "angles", "dihedrals"],
    ["bonds", "constraints", "pairs", "angles", "atoms", "dihedrals", "exclusions"],
    ["constraints", "atoms", "angles", "pairs", "exclusions", "bonds", "dihedrals"],
    ["exclusions", "angles", "pairs", "bonds", "dihedrals", "constraints", "atoms"],
    ["atoms", "angles", "constraints", "exclusions", "pairs", "dihedrals", "bonds"],
]

_HAND = [
    deco(),
    deco(num="gaps", res="each", sep=1, comments=1, blanks=True, molname=1),
    deco(num="big", sep=2, trailing=True, order=1, hstyle=1, molname=2),
    deco(num="offset", comments=2, prepro=1, order=1, hstyle=3, flip=True, res="pairs"),
    deco(num="gaps", sep=3, lead="  ", prepro=2, extra=True, order=5, bondcols=2, molname=3),
    deco(num="gaps", res="pairs", sep=4, empty=True, repeat=True, hstyle=4, final_nl=False),
    deco(num="big", res="each", comments=2, trailing=True, blanks=True, prepro=2, extra=True, order=4, hstyle=6, flip=True,
         dup=True, bondcols=0, mass=False, molname=1),
    deco(num="contig", extra=True, order=5, comments=2, repeat=True, hstyle=5),
    deco(num="shift1", trail_ws=True, lead="\t", extra=True, dup=True, hstyle=2, res="each"),
    deco(num="descending", comments=1, res="each", bondcols=1),
    deco(num="shuffled", sep=2, extra=True, flip=True, res="pairs", molname=2),
    deco(num="gaps", order=2, comments=1, res="each"),     # [ atoms ] after the bond sections (outside the quantifier)
    deco(num="offset", order=3, extra=True, trailing=True),  # [ constraints ] before [ atoms ] (outside the quantifier)
]


def random_deco(k):
    r = random.Random(7919 * (k + 1))
    return deco(num=r.choice(["contig", "offset", "shift1", "big", "gaps", "gaps", "descending", "shuffled"]), res=r.choice(["one", "each", "pairs"]),
                sep=r.randrange(5), lead=r.choice(["", "", " ", "\t"]), trail_ws=r.random() < 0.3, comments=r.randrange(3),
                trailing=r.random() < 0.5, blanks=r.random() < 0.5, prepro=r.randrange(3), order=r.randrange(len(ORDERS)),
                extra=r.random() < 0.5, empty=r.random() < 0.4, repeat=r.random() < 0.4, hstyle=r.randrange(7),
                bondcols=r.randrange(3), flip=r.random() < 0.5, dup=r.random() < 0.3, final_nl=r.random() < 0.8,
                mass=r.random() < 0.7, molname=r.randrange(len(MOLNAMES)))


DECOS = _HAND + [random_deco(k) for k in range(40 - len(_HAND))]
N_DECOS_QUICK = 12


def _join(fields, d, k):
    s = d["sep"]
    if s == 0:
        body = " ".join(fields)
    elif s == 1:
        body = "   ".join(fields)
    elif s == 2:
        body = "\t".join(fields)
    elif s == 3:
        seps = [" ", "\t", "   ", " \t "]
        body = fields[0] + "".join(seps[(k + i) % 4] + f for i, f in enumerate(fields[1:]))
    else:
        body = "".join(f"{f:>{max(len(f) + 1, 7)}}" for f in fields)
    return d["lead"] + body + ("  " if d["trail_ws"] else "")


def _header(name, style, k):
    if style == 6:
        style = k % 6
    return ["[ %s ]", "[%s]", "[  %s  ]", " [ %s ]", "[ %s ] ; i j funct", "[%s] \t; comment"][style] % name


def fmt_itp(spec, d):
    """Write the specification as .itp text.  spec: name, nrexcl, atoms (dicts nr,type,resnr,res,atom,cgnr,charge,mass),
    edges [(i, j, 'b'|'c'|'p')] on 0-based positions."""
    out = []
    cnt = itertools.count()
    atoms = spec["atoms"]
    n = len(atoms)
    nr = [a["nr"] for a in atoms]
    listed = {(min(i, j), max(i, j)) for i, j, _ in spec["edges"]}
    nonedges = [(i, j) for i in range(n) for j in range(i + 1, n) if (i, j) not in listed]

    def content(fields, tail=None):
        k = next(cnt)
        line = _join(fields, d, k)
        if tail is not None:
            line += tail
        elif d["trailing"] and k % 3 != 2:
            line += TSEP[k % 4] + TCOM[k % len(TCOM)]
        out.append(line)

    def comment(text):
        k = next(cnt)
        out.append([";", "; ", "  ; ", ";;"][k % 4] + text)

    def blank():
        if d["blanks"]:
            out.append(["", "   ", "\t"][next(cnt) % 3])

    hk = itertools.count()

    def header(name):
        out.append(_header(name, d["hstyle"], next(hk)))

    def fake_bond_comment():
        # a commented-out line that would be a bond between two real, unbonded atoms
        if nonedges:
            i, j = nonedges[next(cnt) % len(nonedges)]
            comment(f"{nr[i]} {nr[j]} 1 0.15 1000")
        else:
            comment("9999 9998 1")

    # ---- text before the first section
    if d["comments"]:
        comment("topology written by the C15 generator")
        comment("")
    if d["prepro"]:
        out.append('#include "forcefield.itp"')
        out.append("#define FLEXIBLE")
    blank()
    # ---- moleculetype (always first, as GROMACS demands)
    header("moleculetype")
    if d["comments"]:
        comment("name nrexcl")
    if d["comments"] == 2:
        comment("OTHER 2")
    if d["prepro"] == 2:
        out.append("#ifdef NOTHING")
        out.append("#endif")
    # the trailing comment of the moleculetype line is its own dimension (d["mt_tail"]); by default it is
    # separated from nrexcl by white space
    mt_tail = d.get("mt_tail")
    if mt_tail is None:
        mt_tail = [" ; name nrexcl", "\t; 3", "  ;x ; y"][len(spec["name"]) % 3] if d["trailing"] else ""
    content([spec["name"], str(spec["nrexcl"])], tail=mt_tail)
    blank()

    def atoms_block():
        header("atoms")
        if d["comments"]:
            comment("nr type resnr residue atom cgnr charge mass")
        for k, a in enumerate(atoms):
            wrap = d["prepro"] == 2 and k == 0
            if wrap:
                out.append("#ifdef FLEXIBLE")   # FLEXIBLE is #defined at the top: kept under either reading of the line
            f = [str(a["nr"]), a["type"], str(a["resnr"]), a["res"], a["atom"], str(a["cgnr"]), a["charge"]]
            if d["mass"]:
                f.append(a["mass"])
            content(f)
            if wrap:
                out.append("#endif")
            if d["comments"] == 2:
                comment(f"{a['nr'] + 1} XX 1 XXX XX {a['nr'] + 1} 0.0 1.0")
            if k % 2:
                blank()
        if d["prepro"] == 1:
            out.append("#ifdef POSRES")
            out.append('#include "posre.itp"')
            out.append("#endif")
        blank()

    def bond_lines(edges, sec):
        for k, (i, j) in enumerate(edges):
            a, b = (nr[j], nr[i]) if (d["flip"] and k % 2 == 0) else (nr[i], nr[j])
            f = [str(a), str(b)]
            if d["bondcols"] >= 1:
                # function types vary (bonds 1, 2, 6 = harmonic potential without exclusions, 7; constraints 1, 2): every listed pair is a bond
                f.append(["1", "6", "2", "7"][k % 4] if sec == "b" else (["2", "1"][k % 2] if sec == "c" else "1"))
            if d["bondcols"] == 2:
                f += ["0.1530", "2.2e+05"] if sec == "b" else (["0.47"] if sec == "c" else [])
            wrap = d["prepro"] == 2 and k == 0
            if wrap:
                out.append("#ifndef RIGID")
            content(f)
            if wrap:
                out.append("#endif")
            if d["comments"] == 2:
                fake_bond_comment()
            if k % 2:
                blank()

    per = {s: [(i, j) for i, j, t in spec["edges"] if t == s] for s in "bcp"}
    if d["dup"] and spec["edges"]:
        # the first listed pair is listed a second time, reversed, in another section
        i, j, t = spec["edges"][0]
        per["p" if t != "p" else "b"].append((j, i))
    late = []

    def bond_block(s):
        edges = per[s]
        if not edges and not d["empty"]:
            return
        first, second = edges, []
        if d["repeat"] and len(edges) >= 2:
            first, second = edges[:len(edges) // 2], edges[len(edges) // 2:]
        header(SECNAME[s])
        if d["comments"]:
            comment("ai aj funct c0 c1")
        if d["prepro"] == 1 and s == "b":
            out.append('#include "extra_bonds.itp"')
        bond_lines(first, s)
        blank()
        if second:
            late.append((s, second))

    def angles_block():
        if n < 3:
            return
        header("angles")
        if d["comments"]:
            comment("ai aj ak funct theta k")
        content([str(nr[0]), str(nr[1]), str(nr[2]), "1", "109.5", "520.0"])
        if n >= 4:
            content([str(nr[3]), str(nr[0]), str(nr[2]), "2", "120.0", "25.0"])
        blank()

    def dihedrals_block():
        if n < 4:
            return
        for rep in range(2):   # shipped topologies repeat [ dihedrals ]
            header("dihedrals")
            content([str(nr[(0 + rep) % 4]), str(nr[(2 + rep) % 4]), str(nr[(1 + rep) % 4]), str(nr[(3 + rep) % 4]), "9", "0.0", "1.0", "3"])
        blank()

    def exclusions_block():
        if not nonedges:
            return
        header("exclusions")
        for i, j in nonedges[:3]:
            content([str(nr[i]), str(nr[j])])
        blank()

    blocks = {"atoms": atoms_block, "bonds": lambda: bond_block("b"), "constraints": lambda: bond_block("c"),
              "pairs": lambda: bond_block("p"), "angles": angles_block, "dihedrals": dihedrals_block,
              "exclusions": exclusions_block}
    for key in ORDERS[d["order"]]:
        if key in ("angles", "dihedrals", "exclusions") and not d["extra"]:
            continue
        blocks[key]()
    for s, edges in late:
        header(SECNAME[s])
        bond_lines(edges, s)
    if d["comments"]:
        comment("end of topology")
    text = "\n".join(out)
    if d["final_nl"]:
        text += "\n"
    return text


def make_atoms(n, num="contig", res="one"):
    nums = numbering(num, n)
    atoms = []
    for k in range(n):
        resnr, resname = residue(res, k)
        nm = ANAMES[k % len(ANAMES)] if n <= len(ANAMES) else f"{'CHONPS'[k % 6]}{k + 1}"
        atoms.append({"nr": nums[k], "type": TYPES[k % len(TYPES)], "resnr": resnr, "res": resname, "atom": nm,
                      "cgnr": k + 1, "charge": ["0.000", "-0.250", "1", "0.5"][k % 4], "mass": ["12.011", "1.008", "72"][k % 3]})
    return atoms


def small_spec(n, edges, split, d):
    return {"name": MOLNAMES[d["molname"]], "nrexcl": 1 + d["molname"] % 3,
            "atoms": make_atoms(n, d["num"], d["res"]),
            "edges": [(i, j, s) for (i, j), s in zip(edges, split)]}


def expected_of(spec):
    return {"name": spec["name"],
            "atoms": [[a["atom"], a["res"], a["resnr"]] for a in spec["atoms"]],
            "pairs": sorted({(min(i, j), max(i, j)) for i, j, _ in spec["edges"]})}


def connected_oracle(n, pairs):
    """Union-find on the listed pairs."""
    parent = list(range(n))

    def find(x):
        while parent[x] != x:
            parent[x] = parent[parent[x]]
            x = parent[x]
        return x

    comps = n
    for i, j in pairs:
        a, b = find(i), find(j)
        if a != b:
            parent[a] = b
            comps -= 1
    return comps == 1


def large_spec(family, n, seed, sections="b", num="contig"):
    r = random.Random(1000003 * seed + n)
    E = []
    if family == "chain":
        E = [(k, k + 1) for k in range(n - 1)]
    elif family == "chain-permuted":
        perm = list(range(n))
        r.shuffle(perm)
        E = [(perm[k], perm[k + 1]) for k in range(n - 1)]
    elif family == "star":
        c = 0 if seed % 2 == 0 else n // 2
        E = [(c, k) if k % 2 else (k, c) for k in range(n) if k != c]
    elif family == "tree":
        E = [(r.randrange(k), k) for k in range(1, n)]
    elif family == "deep-tree":
        E = [(r.randrange(max(0, k - 3), k), k) for k in range(1, n)]
    elif family == "forest-halves":
        h = n // 2
        E = [(r.randrange(k), k) for k in range(1, h)] + [(h + r.randrange(k - h), k) for k in range(h + 1, n)]
    elif family == "forest-first-isolated":
        E = [(k, k + 1) for k in range(1, n - 1)]
    elif family == "forest-last-isolated":
        E = [(r.randrange(k), k) for k in range(1, n - 1)]
    elif family == "forest-5":
        cut = sorted(r.sample(range(1, n), 4))
        lo = 0
        for hi in cut + [n]:
            E += [(lo + r.randrange(k - lo), k) for k in range(lo + 1, hi)]
            lo = hi
    elif family == "ring":
        E = [(k, (k + 1) % n) for k in range(n)]
    elif family == "two-rings":
        h = n // 2
        E = [(k, (k + 1) % h) for k in range(h)] + [(h + k, h + (k + 1) % (n - h)) for k in range(n - h)]
    elif family == "ladder":
        h = n // 2
        E = [(k, k + 1) for k in range(h - 1)] + [(h + k, h + k + 1) for k in range(h - 1)] + [(k, h + k) for k in range(h)]
        if n % 2:
            E.append((n - 2, n - 1))
    elif family == "tree+chords":
        E = [(r.randrange(k), k) for k in range(1, n)]
        have = {(min(a, b), max(a, b)) for a, b in E}
        while len(E) < n - 1 + n // 5:
            a, b = r.randrange(n), r.randrange(n)
            if a != b and (min(a, b), max(a, b)) not in have:
                have.add((min(a, b), max(a, b)))
                E.append((a, b))
    else:
        raise ValueError(family)
    if sections == "b":
        secs = ["b"] * len(E)
    elif sections == "mix":
        secs = ["bcp"[k % 3] for k in range(len(E))]
    else:
        secs = [r.choice("bcp") for _ in E]
    return {"name": "BIG", "nrexcl": 3, "atoms": make_atoms(n, num, "tens"),
            "edges": [(i, j, s) for (i, j), s in zip(E, secs)]}


# ---------------------------------------------------------------------------
# independent minimal parse (oracle for the shipped files)


def mini_parse(text):
    sec, name, atoms, nums, raw = None, None, [], {}, []
    for line in text.splitlines():
        line = line.split(";", 1)[0].strip()
        if not line or line.startswith("#"):
            continue
        if line.startswith("["):
            sec = line[1:line.index("]")].strip()
            continue
        f = line.split()
        if sec == "moleculetype":
            if name is None:
                name = f[0]
        elif sec == "atoms":
            nums[int(f[0])] = len(atoms)
            atoms.append([f[4], f[3], int(f[2])])
        elif sec in ("bonds", "constraints", "pairs"):
            raw.append((int(f[0]), int(f[1])))
    pairs = sorted({(min(nums[a], nums[b]), max(nums[a], nums[b])) for a, b in raw})
    return {"name": name, "atoms": atoms, "pairs": pairs}


# ---------------------------------------------------------------------------
# contracts


@contextlib.contextmanager
def _quiet():
    with contextlib.redirect_stdout(io.StringIO()), warnings.catch_warnings():
        warnings.simplefilter("ignore")
        yield


def _adjacency(exp):
    adj = [set() for _ in exp["atoms"]]
    for i, j in exp["pairs"]:
        adj[i].add(j)
        adj[j].add(i)
    return adj


def _exc(e):
    return f"raises {type(e).__name__}: {str(e)[:200]}"


class Soft(str):
    """A mismatch the property statement does not demand (API layout, attribute names, helper protocol): it is reported
    as 'undecided', never as 'refuted'."""


def _hard(d):
    return {k: v for k, v in d.items() if not isinstance(v, Soft)}


def _soft(d):
    return {k: v for k, v in d.items() if isinstance(v, Soft)}


def outside_quantifier(d):
    """Input features of a decoration variant that the statement's quantifier does not cover: failures that occur only on
    such inputs are reported as 'undecided'."""
    r = []
    order = ORDERS[d["order"]]
    if any(order.index(s_) < order.index("atoms") for s_ in ("bonds", "constraints", "pairs")):
        r.append("[ atoms ] placed after a bond section")
    if not d["final_nl"]:
        r.append("no final newline")
    if not d["mass"]:
        r.append("atoms lines without the mass column")
    if d["bondcols"] == 0:
        r.append("bond lines without funct")
    return "; ".join(r) or None


def check_read(res, exp):
    """Postconditions of read_topology(path) -> (name, atoms_info, atoms_bonds)."""
    fails = {}
    try:
        name, ainfo, abonds = res
    except Exception as e:
        # the layout of the returned value is API, not part of the statement
        return {k: Soft(f"result is not a (name, atoms, bonds) triple: {_exc(e)}") for k in CLAUSE_KEYS[0:3]}
    if name != exp["name"]:
        fails[CLAUSE_KEYS[0]] = f"molecule name {name!r}, file says {exp['name']!r}"
    got = [tuple(a) for a in ainfo]
    want = [tuple(a) for a in exp["atoms"]]
    if got != want:
        k = next((i for i, (g, w) in enumerate(zip(got, want)) if g != w), min(len(got), len(want)))
        msg = (f"{len(got)} atoms returned, file lists {len(want)}; first difference at position {k}: "
               f"got {got[k] if k < len(got) else None}, file (name, resname, resid) = {want[k] if k < len(want) else None}")
        norm = lambda t: sorted(map(str, t))
        if len(got) == len(want) and all(norm(g) == norm(w) for g, w in zip(got, want)):
            # same names / residue names / residue numbers per atom, other tuple layout or number type: not demanded
            msg = Soft("per-atom tuple layout differs from (name, resname, resid): " + msg)
        fails[CLAUSE_KEYS[1]] = msg
    try:
        gp = {(min(int(a), int(b)), max(int(a), int(b))) for a, b in abonds}
    except Exception as e:
        fails[CLAUSE_KEYS[2]] = Soft(f"bond list is not a list of index pairs: {_exc(e)}")
    else:
        wp = {tuple(p) for p in exp["pairs"]}
        if gp != wp:
            fails[CLAUSE_KEYS[2]] = (f"bond pairs (0-based positions) differ from the listed pairs: missing {sorted(wp - gp)[:6]}, "
                                     f"unexpected {sorted(gp - wp)[:6]} ({len(gp)} returned, {len(wp)} listed)")
    return fails


def check_mol(mol, exp):
    """Postconditions of MoleculeTop(path)."""
    fails = {}
    want = [tuple(a) for a in exp["atoms"]]
    try:
        got = [(a.name, a.resname, a.resid) for a in mol.atoms]
        idx = [a.index for a in mol.atoms]
        bonds = [set(a.bonds) for a in mol.atoms]
        nm = mol.name
    except Exception as e:
        return {k: Soft(f"cannot read the molecule's atoms through .name/.atoms/.resname/.resid/.bonds: {_exc(e)}")
                for k in CLAUSE_KEYS[3:6]}
    msg, smsg = [], []
    if nm != exp["name"]:
        msg.append(f"name {nm!r}, file says {exp['name']!r}")
    if got != want:
        k = next((i for i, (g, w) in enumerate(zip(got, want)) if g != w), min(len(got), len(want)))
        msg.append(f"{len(got)} atoms, file lists {len(want)}; position {k}: got {got[k] if k < len(got) else None}, "
                   f"file {want[k] if k < len(want) else None}")
    try:   # informational: not in the statement
        if idx != list(range(len(idx))):
            smsg.append("atom.index is not the 0-based file position")
        if len(mol) != len(mol.atoms) or [a is b for a, b in zip(mol, mol.atoms)].count(False):
            smsg.append("len()/iteration disagree with .atoms")
    except Exception as e:
        smsg.append(f"len()/iteration {_exc(e)}")
    if msg:
        fails[CLAUSE_KEYS[3]] = "; ".join(msg)
    elif smsg:
        fails[CLAUSE_KEYS[3]] = Soft("; ".join(smsg))
    adj = _adjacency(exp)
    if len(bonds) == len(adj):
        bad = [i for i in range(len(adj)) if bonds[i] != adj[i]]
        if bad:
            i = bad[0]
            fails[CLAUSE_KEYS[4]] = (f"{len(bad)} atoms have a wrong bond set; position {i}: bonds {sorted(bonds[i])[:8]}, "
                                     f"listed pairs give {sorted(adj[i])[:8]}")
    else:
        fails[CLAUSE_KEYS[4]] = f"{len(bonds)} atoms, file lists {len(adj)}"
    asym = [(i, j) for i, b in enumerate(bonds) for j in b if not (0 <= j < len(bonds)) or i not in bonds[j]]
    if asym:
        fails[CLAUSE_KEYS[5]] = f"{len(asym)} one-directional bonds, first: {asym[0][1]} in atoms[{asym[0][0]}].bonds but not the converse"
    return fails


def check_connected(fn, atoms, expect):
    try:
        with _quiet():
            got = fn(atoms)
    except BaseException as e:  # RecursionError included
        if isinstance(e, (KeyboardInterrupt, SystemExit)):
            raise
        return {CLAUSE_KEYS[6]: f"are_connected on {len(atoms)} atoms {_exc(e)}; the graph is {'connected' if expect else 'not connected'}"}
    if bool(got) != expect:
        return {CLAUSE_KEYS[6]: f"are_connected on {len(atoms)} atoms returned {got!r}; the graph is {'connected' if expect else 'not connected'}"}
    return {}


def _snap(mol):
    return (mol.name, [(a.name, a.resname, a.resid, a.index, frozenset(a.bonds)) for a in mol.atoms])


def _snapdiff(a, b):
    if a[0] != b[0]:
        return f"name {a[0]!r} -> {b[0]!r}"
    if len(a[1]) != len(b[1]):
        return f"number of atoms {len(a[1])} -> {len(b[1])}"
    for k, (x, y) in enumerate(zip(a[1], b[1])):
        if x != y:
            f = [n for n, u, v in zip(("name", "resname", "resid", "index", "bonds"), x, y) if u != v]
            return f"atom {k}: {', '.join(f)} changed ({[sorted(u) if isinstance(u, frozenset) else u for u in x]} -> {[sorted(u) if isinstance(u, frozenset) else u for u in y]})"
    return ""


def _mutate(m):
    n = len(m.atoms)
    for k, a in enumerate(m.atoms):
        a.bonds.add(n + 7 + k)
        if len(a.bonds) > 1:
            a.bonds.discard(min(a.bonds))
        a.name = a.name + "_m"
        a.resname = "ZZ"
        a.resid = a.resid + 1000
    m.atoms[0].connect(m.atoms[-1])
    m.name = m.name + "_m"
    m.atoms.append(m.atoms[0])


def check_copy(mol, do_copy):
    """Postconditions of MoleculeTop.copy(); mutates ``mol`` at the end."""
    fails = {}
    before = _snap(mol)
    try:
        with _quiet():
            c = do_copy(mol)
            eq = (c == mol, mol == c, c != mol)
            same = _snapdiff(before, _snap(c))
    except Exception as e:
        m = f"copy() / comparison {_exc(e)}"
        return {CLAUSE_KEYS[7]: m, CLAUSE_KEYS[8]: m}, None
    if not (eq[0] and eq[1]) or same:
        fails[CLAUSE_KEYS[7]] = (f"copy == original: {eq[0]}, original == copy: {eq[1]}, copy != original: {eq[2]}; "
                                 f"field differences: {same or 'none'}")
    elif eq[2] or type(c) is not type(mol):
        fails[CLAUSE_KEYS[7]] = Soft(f"copy != original: {eq[2]} although == holds; type of the copy: {type(c).__name__}")
    discriminates = None
    try:
        _mutate(c)
        d1 = _snapdiff(before, _snap(mol))
        with _quiet():
            discriminates = not (c == mol)
        c2 = do_copy(mol)
        s2 = _snap(c2)
        _mutate(mol)
        d2 = _snapdiff(s2, _snap(c2))
    except Exception as e:
        fails[CLAUSE_KEYS[8]] = Soft(f"cannot mutate one of the two objects the way the harness does: {_exc(e)}")
        return fails, discriminates
    if c is mol or d1 or d2:
        fails[CLAUSE_KEYS[8]] = ("copy is the same object" if c is mol else
                                 (f"mutating the copy changed the original: {d1}" if d1 else
                                  f"mutating the original changed the copy: {d2}"))
    return fails, discriminates


def hand_built_atoms(exp):
    from gaddlemaps.components import AtomTop
    adj = _adjacency(exp)
    atoms = []
    for k, (name, resname, resid) in enumerate(exp["atoms"]):
        a = AtomTop(name, resname, resid, k)
        a.bonds = set(adj[k])
        atoms.append(a)
    return atoms


def evaluate(text, exp, fname="mol.itp", workdir=None):
    """All contract clauses on one .itp text.  Returns (fails: clause -> message for the demanded clauses, evaluated: set of
    clauses, extras); extras["soft"] holds the mismatches that the statement does not demand."""
    from gaddlemaps.parsers import read_topology
    from gaddlemaps.components import MoleculeTop, are_connected
    own = workdir is None
    if own:
        workdir = tempfile.mkdtemp(prefix="c15_")
    path = os.path.join(workdir, fname)
    fails, evald, extras = {}, set(), {}
    soft = extras["soft"] = {}

    def merge(d):
        fails.update(_hard(d))
        for k_, v_ in _soft(d).items():
            soft.setdefault(k_, v_)
    try:
        with open(path, "w", encoding="utf-8", newline="") as f:
            f.write(text)
        # read_topology
        evald.add(K_READ_OK)
        try:
            with _quiet():
                res = read_topology(path)
        except Exception as e:
            fails[K_READ_OK] = f"read_topology(path) {_exc(e)}"
        else:
            evald.update(CLAUSE_KEYS[0:3])
            merge(check_read(res, exp))
        # MoleculeTop
        evald.add(K_MOL_OK)
        mol = None
        try:
            with _quiet():
                mol = MoleculeTop(path)
        except Exception as e:
            fails[K_MOL_OK] = f"MoleculeTop(path) {_exc(e)}"
        else:
            evald.update(CLAUSE_KEYS[3:6])
            merge(check_mol(mol, exp))
        extras["mol"] = mol
        # are_connected: on atoms carrying exactly the file's graph, and on the loaded molecule when it carries it
        want = connected_oracle(len(exp["atoms"]), exp["pairs"])
        try:
            hb = hand_built_atoms(exp)
        except Exception:
            hb = None
        if mol is not None and CLAUSE_KEYS[4] not in fails and CLAUSE_KEYS[4] not in soft:
            # the statement's case: the loaded molecule carries exactly the file's graph
            evald.add(CLAUSE_KEYS[6])
            f6 = check_connected(are_connected, mol.atoms, want) or check_connected(are_connected, list(mol), want)
            fails.update(f6)
            if not f6 and hb is not None:
                fh = check_connected(are_connected, hb, want)   # hand-built AtomTop objects: informational here
                if fh:
                    soft.setdefault(CLAUSE_KEYS[6], Soft("on AtomTop objects built by the harness: " + fh[CLAUSE_KEYS[6]]))
        elif hb is not None:
            evald.add(CLAUSE_KEYS[6])
            fails.update(check_connected(are_connected, hb, want))
        # copy
        if mol is not None:
            evald.update(CLAUSE_KEYS[7:9])
            f78, disc = check_copy(mol, lambda m: m.copy())
            merge(f78)
            extras["eq_discriminates"] = disc
        # the connectivity test asked AGAIN on the same atoms after their bond sets were edited: the answer is that of the graph as it is now
        if mol is not None and CLAUSE_KEYS[6] in evald and CLAUSE_KEYS[6] not in fails and CLAUSE_KEYS[4] not in fails and len(exp["atoms"]) >= 2:
            try:
                with _quiet():
                    mol2 = type(mol)(path)          # a second, untouched load of the same file (the copy clauses above may have edited `mol`)
                    atoms = mol2.atoms
                    are_connected(atoms)            # first question
                n_ = len(atoms)
                pairs2 = [tuple(p_) for p_ in exp["pairs"]]
                if want:                    # cut the last atom off: not connected any more
                    last = n_ - 1
                    for j in list(atoms[last].bonds):
                        atoms[last].bonds.discard(j)
                        atoms[j].bonds.discard(last)
                    pairs2 = [p_ for p_ in pairs2 if last not in p_]
                else:                       # join the components one after the other: connected now
                    comp = list(range(n_))

                    def root(x):
                        while comp[x] != x:
                            x = comp[x]
                        return x
                    for i_, j_ in pairs2:
                        comp[root(i_)] = root(j_)
                    reps = sorted({root(x) for x in range(n_)})
                    for a_, b_ in zip(reps, reps[1:]):
                        atoms[a_].connect(atoms[b_])
                        pairs2.append((a_, b_))
                want2 = connected_oracle(n_, pairs2)
                f6b = check_connected(are_connected, atoms, want2)
                if f6b:
                    fails[CLAUSE_KEYS[6]] = "asked again on the same atoms after their bond sets were edited: " + f6b[CLAUSE_KEYS[6]]
            except Exception as e:      # the edit itself failed: not a statement about the connectivity test
                soft.setdefault(CLAUSE_KEYS[6], Soft(f"could not edit the bond sets for the second question: {_exc(e)}"))
    finally:
        if own:
            shutil.rmtree(workdir, ignore_errors=True)
        else:
            with contextlib.suppress(OSError):
                os.remove(path)
    return fails, evald, extras


def make_cex(text, exp, clause, case, signature=None, fname="mol.itp"):
    return {"kind": "itp", "file": fname, "itp": text, "expected": exp, "clause": clause, "case": case,
            "signature": signature or clause}


class Tally:
    def __init__(self, family):
        self.family = family
        self.n = {k: 0 for k in CLAUSE_KEYS}
        self.nfail = {k: 0 for k in CLAUSE_KEYS}
        self.first = {}
        self.soft_first = {}
        self.nsoft = {k: 0 for k in CLAUSE_KEYS}
        self.hashes = set()
        self.nontrivial = set()
        self.sample = None
        self.eq_disc = [0, 0]
        self.t0 = time.time()

    def add(self, case, text, exp, fails, evald, extras, cex_builder=None, outside=None):
        softs = dict(extras.get("soft") or {})
        if outside and fails:
            # the input is outside the statement's quantifier: nothing observed on it is a refutation
            for k, msg in fails.items():
                softs.setdefault(k, Soft(f"[input outside the quantifier: {outside}] {msg}"))
            fails = {}
        for k, msg in softs.items():
            self.nsoft[k] += 1
            self.soft_first.setdefault(k, (case, str(msg)))
        h = hashlib.sha1(text.encode()).digest()[:8]
        self.hashes.add(h)
        if len(exp["atoms"]) >= 2:
            self.nontrivial.add(h)
        if self.sample is None or (len(self.sample.get("itp", "")) < 200 and len(text) < 2500):
            self.sample = {"case": case, "itp": text if len(text) < 2500 else text[:1500] + "\n...[truncated]",
                           "expected_pairs": exp["pairs"][:12], "n_atoms": len(exp["atoms"])}
        for k in evald:
            self.n[k] += 1
        for k, msg in fails.items():
            self.nfail[k] += 1
            if k not in self.first:
                cex = cex_builder(k) if cex_builder else make_cex(text, exp, k, case)
                self.first[k] = (case, msg, cex)
        d = extras.get("eq_discriminates")
        if d is not None:
            self.eq_disc[0] += 1
            self.eq_disc[1] += bool(d)

    def obligations(self):
        secs = time.time() - self.t0
        out = []
        for (fn, cl), k in zip(CLAUSES, CLAUSE_KEYS):
            if not self.n[k] and k not in self.first and k not in self.soft_first:
                continue
            oid = f"{PROP}/{fn}/{cl}/{self.family}"
            nt = min(self.n[k], len(self.nontrivial))
            if k in self.first:
                case, msg, cex = self.first[k]
                out.append(ob(oid, "refuted", kind="bounded", engine="smallscope", backend="runtime-contract",
                              secs=secs / len(CLAUSES), evaluations=self.n[k], nontrivial=nt,
                              reason=f"{self.nfail[k]}/{self.n[k]} cases violate; first ({case}): {msg}",
                              cex=cex, sample=self.sample))
            elif k in self.soft_first:
                case, msg = self.soft_first[k]
                out.append(ob(oid, "undecided", kind="bounded", engine="smallscope", backend="runtime-contract",
                              secs=secs / len(CLAUSES), evaluations=self.n[k], nontrivial=nt, sample=self.sample,
                              reason=(f"{self.nsoft[k]}/{self.n[k]} cases differ only in a point the statement does not fix "
                                      f"(not a violation); first ({case}): {msg}")))
            else:
                out.append(ob(oid, "discharged", kind="bounded", engine="smallscope", backend="runtime-contract",
                              secs=secs / len(CLAUSES), evaluations=self.n[k], nontrivial=nt, sample=self.sample))
        if self.eq_disc[0]:
            # the equality used by the 'equal' clause is not vacuous: a mutated copy must compare unequal
            ok = self.eq_disc[1] == self.eq_disc[0]
            out.append(ob(f"{PROP}/MoleculeTop.copy/guard.must-fail.mutated-copy-compares-equal/{self.family}",
                          "refuted" if ok else "discharged", kind="guard", engine="smallscope", backend="runtime-contract",
                          expect="refuted", evaluations=self.eq_disc[0]))
        return out


def guards(text, exp, family):
    """Must-fail guards: the clauses evaluated on deliberately corrupted expectations / observations."""
    from gaddlemaps.parsers import read_topology
    from gaddlemaps.components import MoleculeTop, are_connected
    out = []
    wd = tempfile.mkdtemp(prefix="c15g_")
    try:
        path = os.path.join(wd, "mol.itp")
        with open(path, "w", encoding="utf-8", newline="") as f:
            f.write(text)
        with _quiet():
            res = read_topology(path)
            mol = MoleculeTop(path)

        def g(fn, name, caught):
            out.append(ob(f"{PROP}/{fn}/guard.must-fail.{name}/{family}", "refuted" if caught else "discharged", kind="guard",
                          engine="smallscope", backend="runtime-contract", expect="refuted"))
        if exp["pairs"]:
            less = dict(exp, pairs=exp["pairs"][1:])
            g("read_topology", "listed-pair-dropped-from-oracle", CLAUSE_KEYS[2] in _hard(check_read(res, less)))
            g("MoleculeTop.__init__", "listed-pair-dropped-from-oracle", CLAUSE_KEYS[4] in _hard(check_mol(mol, less)))
            i, j = exp["pairs"][0]
            m2 = mol.copy()
            m2.atoms[i].bonds.discard(j)
            g("MoleculeTop.__init__", "one-directional-bond", CLAUSE_KEYS[5] in _hard(check_mol(m2, exp)))
        if len(exp["atoms"]) >= 2:
            sw = dict(exp, atoms=[exp["atoms"][1], exp["atoms"][0]] + exp["atoms"][2:])
            g("read_topology", "atoms-swapped-in-oracle", CLAUSE_KEYS[1] in _hard(check_read(res, sw)))
        g("read_topology", "other-name-in-oracle", CLAUSE_KEYS[0] in _hard(check_read(res, dict(exp, name=exp["name"] + "x"))))
        want = connected_oracle(len(exp["atoms"]), exp["pairs"])
        g("are_connected", "oracle-negated", bool(check_connected(are_connected, hand_built_atoms(exp), not want)))
        f, _ = check_copy(mol.copy(), lambda m: _copy.copy(m))
        g("MoleculeTop.copy", "shallow-copy-is-independent", CLAUSE_KEYS[8] in _hard(f))

        def bad_copy(m):
            c = m.copy()
            c.atoms[-1].name += "?"
            return c
        f, _ = check_copy(mol.copy(), bad_copy)
        g("MoleculeTop.copy", "altered-copy-is-equal", CLAUSE_KEYS[7] in _hard(f))
    except Exception as e:
        out.append(ob(f"{PROP}/guards/{family}", "undecided", kind="guard", engine="smallscope", backend="runtime-contract",
                      expect="refuted", reason=f"guard evaluation failed: {_exc(e)}"))
    finally:
        shutil.rmtree(wd, ignore_errors=True)
    return out


def run_cases(family, cases, with_guards=True):
    """cases: iterable of (description, text, expected[, reason why the input is outside the statement's quantifier])."""
    tally = Tally(family)
    wd = tempfile.mkdtemp(prefix="c15_")
    gcase = None
    try:
        for case, text, exp, *rest in cases:
            fails, evald, extras = evaluate(text, exp, workdir=wd)
            tally.add(case, text, exp, fails, evald, extras, outside=rest[0] if rest else None)
            if (with_guards and not fails and (gcase is None or (not gcase[1]["pairs"] and exp["pairs"]))
                    and len(text) < 400000):
                gcase = (text, exp)
    finally:
        shutil.rmtree(wd, ignore_errors=True)
    out = tally.obligations()
    if with_guards and gcase is not None:
        out += guards(gcase[0], gcase[1], family)
    return out


# ---------------------------------------------------------------------------
# scopes


def all_graphs(n):
    pairs = [(i, j) for i in range(n) for j in range(i + 1, n)]
    for m in range(1 << len(pairs)):
        yield tuple(p for b, p in enumerate(pairs) if m >> b & 1)


def small_pairs(ns, emin, emax):
    """Every (n, graph, split of its edges over b/c/p) with n in ns and emin <= |E| <= emax."""
    for n in ns:
        for edges in all_graphs(n):
            if emin <= len(edges) <= emax:
                for split in itertools.product("bcp", repeat=len(edges)):
                    yield n, edges, split


def deco_indices(tier, seed, idx):
    if tier == "thorough":
        return range(len(DECOS))
    return range(N_DECOS_QUICK)


def task_small(family, ns, emin, emax, shard, nshards, tier, seed):
    def cases():
        for idx, (n, edges, split) in enumerate(small_pairs(ns, emin, emax)):
            if idx % nshards != shard:
                continue
            for di in deco_indices(tier, seed, idx):
                d = DECOS[di]
                spec = small_spec(n, edges, split, d)
                yield (f"n={n} edges={list(edges)} sections={''.join(split)} deco={di}", fmt_itp(spec, d), expected_of(spec),
                       outside_quantifier(d))
    return run_cases(family, cases())


MT_TAILS = {
    "comment-after-white-space": [" ; name nrexcl", "\t;x", "  ; a ; b", " ;", " ; 7 8"],
    "comment-glued-to-nrexcl": [";name nrexcl", "; x", ";", ";;", ";3"],
}


def task_moleculetype_line(kind, tier, seed):
    """The molecule name is read from a [ moleculetype ] line that carries a trailing comment."""
    def cases():
        for n, edges, split in small_pairs((1, 2, 3), 0, 3):
            for ti, tail in enumerate(MT_TAILS[kind]):
                for di in (0, 1, 4, 8):
                    d = dict(DECOS[di], mt_tail=tail, molname=(ti + di) % len(MOLNAMES))
                    spec = small_spec(n, edges, split, d)
                    yield (f"moleculetype line {spec['name'] + ' ' + str(spec['nrexcl']) + tail!r}; n={n} edges={list(edges)} "
                           f"sections={''.join(split)} deco={di}", fmt_itp(spec, d), expected_of(spec), outside_quantifier(d))
    return run_cases(f"moleculetype-line.{kind}", cases())


def task_medium(family, shard, count, tier, seed):
    def cases():
        r = random.Random(424243 + 1009 * shard + 7 * seed)
        for k in range(count):
            n = r.randrange(5, 13)
            p = r.choice([0.08, 0.15, 0.25, 0.4, 0.6])
            edges = [(i, j) for i in range(n) for j in range(i + 1, n) if r.random() < p]
            if k % 4 == 0:   # make sure connected graphs are frequent: add a random spanning tree
                for v in range(1, n):
                    u = r.randrange(v)
                    if (u, v) not in edges:
                        edges.append((u, v))
            r.shuffle(edges)
            split = [r.choice("bcp") for _ in edges]
            di = r.randrange(len(DECOS))
            d = DECOS[di]
            spec = small_spec(n, edges, split, d)
            yield (f"random graph n={n} edges={edges} sections={''.join(split)} deco={di}", fmt_itp(spec, d), expected_of(spec),
                   outside_quantifier(d))
    return run_cases(family, cases())


LARGE_QUICK = {
    "chains": [("chain", 1500, 0, "b", "contig", 0), ("chain", 2000, 1, "mix", "gaps", 3), ("chain-permuted", 1200, 2, "rand", "offset", 1)],
    "stars": [("star", 1500, 0, "b", "contig", 0), ("star", 1001, 1, "mix", "gaps", 2)],
    "trees": [("tree", 1000, 0, "rand", "gaps", 1), ("deep-tree", 3000, 1, "mix", "contig", 5)],
    "forests": [("forest-halves", 1000, 0, "rand", "gaps", 4), ("forest-first-isolated", 1001, 1, "b", "contig", 0),
                ("forest-last-isolated", 1200, 2, "mix", "big", 2), ("forest-5", 2000, 3, "rand", "gaps", 8)],
    "cyclic": [("ring", 1500, 0, "mix", "gaps", 1), ("ladder", 1200, 1, "rand", "contig", 7), ("tree+chords", 1000, 2, "rand", "big", 6),
               ("two-rings", 1000, 3, "b", "offset", 3)],
}


def large_cases(group, tier, seed):
    lst = list(LARGE_QUICK[group])
    if tier == "thorough":
        fams = sorted({c[0] for c in lst})
        k = 10
        for fam in fams:
            for n in (1000, 2000, 3000):
                for s in range(2):
                    k += 1
                    lst.append((fam, n + s, 100 + k + seed, ["b", "mix", "rand"][k % 3], ["contig", "gaps", "big", "offset"][k % 4], k % len(DECOS)))
    return lst


def task_large(group, tier, seed):
    def cases():
        for fam, n, s, secs, num, di in large_cases(group, tier, seed):
            spec = large_spec(fam, n, s, secs, num)
            d = dict(DECOS[di], num=num, res="tens", final_nl=True, mass=True)
            d["bondcols"] = max(1, d["bondcols"])
            if outside_quantifier(d):      # the large graphs are always written inside the statement's quantifier
                d["order"] = 0
            yield (f"{fam} n={n} seed={s} sections={secs} numbering={num} deco={di}", fmt_itp(spec, d), expected_of(spec),
                   outside_quantifier(d))
    return run_cases(f"large.{group}", cases())


def shipped_files():
    try:
        return sorted(f for f in os.listdir(DATA_DIR) if f.endswith(".itp"))
    except OSError:
        return []


# ---------------------------------------------------------------------------
# scope family "copy after edit": the copy of an EDITED topology equals the edited object


EDIT_OPS = ["name", "resname", "resid", "connect", "unbond", "resnames", "resids", "molname"]


def edits_for(exp):
    """One concrete public edit per kind, chosen from the expected graph (None when not applicable)."""
    n = len(exp["atoms"])
    listed = {tuple(p) for p in exp["pairs"]}
    non = next(((i, j) for i in range(n) for j in range(i + 1, n) if (i, j) not in listed), None)
    first = tuple(exp["pairs"][0]) if exp["pairs"] else None
    return {
        "name": ["name", n // 2, "ZX9"],
        "resname": ["resname", 0, "EDT"],
        "resid": ["resid", n - 1, exp["atoms"][n - 1][2] + 50],
        "connect": ["connect", non[1], non[0]] if non else None,
        "unbond": ["unbond", first[0], first[1]] if first else None,
        "resnames": ["resnames"],
        "resids": ["resids"],
        "molname": ["molname", exp["name"] + "_edited"],
    }


def apply_edit(mol, e):
    """Public edits of a MoleculeTop: attribute assignment, the resnames/resids setters, AtomTop.connect."""
    op = e[0]
    if op == "name":
        mol.atoms[e[1]].name = e[2]
    elif op == "resname":
        mol[e[1]].resname = e[2]
    elif op == "resid":
        mol[e[1]].resid = e[2]
    elif op == "connect":
        mol.atoms[e[1]].connect(mol.atoms[e[2]])
    elif op == "unbond":
        mol.atoms[e[1]].bonds.discard(e[2])
        mol.atoms[e[2]].bonds.discard(e[1])
    elif op == "resnames":
        mol.resnames = [f"N{k}" for k in range(len(mol.resnames))]
    elif op == "resids":
        mol.resids = [100 + 3 * k for k in range(len(mol.resids))]
    elif op == "molname":
        mol.name = e[1]
    else:
        raise ValueError(op)


def edit_combos(exp):
    ed = edits_for(exp)
    ops = [o for o in EDIT_OPS if ed[o] is not None]
    for o in ops:
        yield [ed[o]]
    for a, b in itertools.combinations(ops, 2):
        yield [ed[a], ed[b]]


def eval_copy_after_edit(path, edits, do_copy=None):
    """Load, edit the original through its public interface, then evaluate the copy clauses on the edited object.
    Returns (fails, evaluated clauses, note); loading or editing problems are not this family's business (note set)."""
    from gaddlemaps.components import MoleculeTop
    try:
        with _quiet():
            mol = MoleculeTop(path)
            loaded = _snap(mol)
            for e in edits:
                apply_edit(mol, e)
            edited = _snap(mol)
    except Exception as e:
        return {}, set(), f"load/edit {_exc(e)}"
    if edited == loaded:
        return {}, set(), "edit had no effect"
    both, _ = check_copy(mol, do_copy or (lambda m: m.copy()))
    fails = _hard(both)
    if CLAUSE_KEYS[7] in fails:
        fails[CLAUSE_KEYS[7]] = (f"after the edits {edits} the copy is not equal to the edited original: " + fails[CLAUSE_KEYS[7]])
    eval_copy_after_edit.soft = _soft(both)
    return fails, set(CLAUSE_KEYS[7:9]), ""


def _cae_cex(clause, edits, case, text=None, exp=None, shipped=None):
    c = {"kind": "copy-after-edit", "edits": edits, "clause": clause, "case": case, "signature": f"{clause}:copy-after-edit"}
    if shipped:
        c["shipped"] = shipped
    else:
        c.update(itp=text, expected=exp, file="mol.itp")
    return c


def run_copy_after_edit(family, cases):
    """cases: iterable of (description, text, expected, file name, shipped name or None)."""
    tally = Tally(family)
    wd = tempfile.mkdtemp(prefix="c15e_")
    skipped, guard = [], None
    try:
        for case, text, exp, fname, shipped in cases:
            path = os.path.join(wd, fname)
            with open(path, "w", encoding="utf-8", newline="") as f:
                f.write(text)
            for edits in edit_combos(exp):
                fails, evald, note = eval_copy_after_edit(path, edits)
                if not evald:
                    if not note.startswith("edit had no effect"):
                        skipped.append(f"{case} {edits}: {note}")
                    continue
                desc = f"{case}; edits={edits}"
                tally.add(desc, text + f"\n; edits {edits}", exp, fails, evald, {"soft": getattr(eval_copy_after_edit, "soft", {})},
                          cex_builder=lambda k, e=edits, d=desc, t=text, x=exp, s=shipped: _cae_cex(k, e, d, t, x, s))
                if guard is None and not fails:
                    # must-fail: a "copy" rebuilt from the file (forgets the edits) has to be refuted by the equal clause
                    from gaddlemaps.components import MoleculeTop
                    gf, _, _ = eval_copy_after_edit(path, edits, do_copy=lambda m, p=path: MoleculeTop(p))
                    guard = CLAUSE_KEYS[7] in gf
    finally:
        shutil.rmtree(wd, ignore_errors=True)
    out = tally.obligations()
    if guard is not None:
        out.append(ob(f"{PROP}/MoleculeTop.copy/guard.must-fail.copy-rebuilt-from-file-equals-edited/{family}",
                      "refuted" if guard else "discharged", kind="guard", engine="smallscope", backend="runtime-contract",
                      expect="refuted"))
    if skipped and not any(tally.n.values()):
        out.append(ob(f"{PROP}/MoleculeTop.copy/copy-after-edit-evaluable/{family}", "undecided", kind="bounded",
                      engine="smallscope", backend="runtime-contract", reason=f"no case could be loaded and edited: {skipped[0]}"))
    return out


def task_copy_after_edit_graphs(shard, nshards, tier, seed):
    def cases():
        decos = (0, 1, 7) if tier == "quick" else [k for k, d_ in enumerate(DECOS) if not outside_quantifier(d_)]
        idx = 0
        for n in (1, 2, 3, 4):
            for edges in all_graphs(n):
                idx += 1
                if idx % nshards != shard:
                    continue
                split = tuple("bcp"[(idx + k) % 3] for k in range(len(edges)))
                for di in decos:
                    d = DECOS[di]
                    spec = small_spec(n, edges, split, d)
                    yield (f"n={n} edges={list(edges)} sections={''.join(split)} deco={di}", fmt_itp(spec, d), expected_of(spec),
                           "mol.itp", None)
    name = f"copy-after-edit.graphs<=4atoms.part{shard + 1}of{nshards}"
    return run_copy_after_edit(name, cases())


COPY_EDIT_SHIPPED = ["BF4_AA.itp", "BMIM_CG.itp", "SDS_AA.itp", "vitamin_E_CG.itp"]


def task_copy_after_edit_shipped(tier, seed):
    def cases():
        names = COPY_EDIT_SHIPPED if tier == "quick" else shipped_files()
        for fn in names:
            p = os.path.join(DATA_DIR, fn)
            if not os.path.exists(p):
                continue
            with open(p, encoding="utf-8") as f:
                text = f.read()
            yield (f"shipped {fn}", text, mini_parse(text), fn, fn)
    return run_copy_after_edit("copy-after-edit.shipped", cases())


def task_shipped(group, tier, seed):
    files = [f for f in shipped_files() if ("AA" in f) == (group == "AA")]
    family = f"shipped.{group}"
    if not files:
        return [ob(f"{PROP}/read_topology/shipped-files-present/{family}", "undecided", kind="bounded", engine="smallscope",
                   backend="runtime-contract", reason=f"no .itp files in {DATA_DIR}")]
    tally = Tally(family)
    for fn in files:
        with open(os.path.join(DATA_DIR, fn), encoding="utf-8") as f:
            text = f.read()
        try:
            exp = mini_parse(text)
        except Exception as e:
            return [ob(f"{PROP}/read_topology/reference-parse/{family}", "undecided", kind="bounded", engine="smallscope",
                       backend="runtime-contract", reason=f"reference parser failed on {fn}: {_exc(e)}")]
        fails, evald, extras = evaluate(text, exp, fname=fn)
        tally.add(f"shipped {fn}", text, exp, fails, evald, extras,
                  cex_builder=lambda k, fn=fn: {"kind": "shipped", "file": fn, "clause": k, "signature": f"{k}:{fn}"})
    out = tally.obligations()
    out.append(ob(f"{PROP}/read_topology/guard.shipped-count/{family}", "discharged" if len(files) >= 1 else "refuted",
                  kind="guard", engine="smallscope", backend="runtime-contract", expect="discharged", sample={"files": files}))
    return out


# ---------------------------------------------------------------------------


def _tasks_bounded(prop, tier, seed):
    t = [("static/no-recursion", task_static, (seed,), 120.0)]
    small = [
        ("graphs<=3atoms", (1, 2, 3), 0, 3, 1),
        ("graphs4atoms.edges0-2", (4,), 0, 2, 1),
        ("graphs4atoms.edges3", (4,), 3, 3, 1),
        ("graphs4atoms.edges4", (4,), 4, 4, 3),
        ("graphs4atoms.edges5", (4,), 5, 5, 4),
        ("graphs4atoms.edges6", (4,), 6, 6, 2),
    ]
    lim = 240.0 if tier == "quick" else 900.0
    for fam, ns, emin, emax, nsh in small:
        for sh in range(nsh):
            name = fam if nsh == 1 else f"{fam}.part{sh + 1}of{nsh}"
            t.append((f"small/{name}", task_small, (name, ns, emin, emax, sh, nsh, tier, seed), lim))
    nmed, cmed = (2, 300) if tier == "quick" else (8, 1500)
    for sh in range(nmed):
        t.append((f"medium/random-graphs.part{sh + 1}of{nmed}", task_medium,
                  (f"random-graphs5-12atoms.part{sh + 1}of{nmed}", sh, cmed, tier, seed), lim))
    for kind in MT_TAILS:
        t.append((f"small/moleculetype-line.{kind}", task_moleculetype_line, (kind, tier, seed), lim))
    for group in LARGE_QUICK:
        t.append((f"large/{group}", task_large, (group, tier, seed), lim))
    for group in ("AA", "CG"):
        t.append((f"shipped/{group}", task_shipped, (group, tier, seed), lim))
    for sh in range(2):
        t.append((f"copy-after-edit/graphs.part{sh + 1}of2", task_copy_after_edit_graphs, (sh, 2, tier, seed), lim))
    t.append(("copy-after-edit/shipped", task_copy_after_edit_shipped, (tier, seed), lim))
    return t


def _replay_copy_after_edit(cex):
    if cex.get("shipped"):
        fname = cex["shipped"]
        with open(os.path.join(DATA_DIR, fname), encoding="utf-8") as f:
            text = f.read()
    else:
        fname, text = cex.get("file", "mol.itp"), cex["itp"]
    wd = tempfile.mkdtemp(prefix="c15r_")
    try:
        path = os.path.join(wd, fname)
        with open(path, "w", encoding="utf-8", newline="") as f:
            f.write(text)
        fails, evald, note = eval_copy_after_edit(path, cex["edits"])
    finally:
        shutil.rmtree(wd, ignore_errors=True)
    clause = cex.get("clause")
    shown = {k: v for k, v in cex.items() if k != "expected"}
    if len(shown.get("itp", "")) > 4000:
        shown["itp"] = shown["itp"][:2000] + "\n...[elided]"
    return {"reproduced": bool(fails), "same_clause": clause in fails if clause else None,
            "observed": fails.get(clause) or "; ".join(f"{k}: {v}" for k, v in fails.items()) or (note or "both copy clauses hold"),
            "violated": sorted(fails),
            "expected": "copy() of the edited topology is == to it, field-wise equal (names, resnames, resids, bonds) and independent",
            "inputs": shown}


def _replay_bounded(prop, cex):
    if cex.get("kind") == "copy-after-edit":
        return _replay_copy_after_edit(cex)
    if cex.get("kind") == "shipped":
        with open(os.path.join(DATA_DIR, cex["file"]), encoding="utf-8") as f:
            text = f.read()
        exp = mini_parse(text)
    else:
        text = cex["itp"]
        exp = cex["expected"]
        exp = {"name": exp["name"], "atoms": [list(a) for a in exp["atoms"]], "pairs": [tuple(p) for p in exp["pairs"]]}
    fails, evald, _ = evaluate(text, exp, fname=cex.get("file", "mol.itp"))
    clause = cex.get("clause")
    shown = dict(cex)
    if len(shown.get("itp", "")) > 4000:
        shown["itp"] = shown["itp"][:2000] + "\n...[elided; the full text is in the replay file's inputs]"
        shown["expected"] = {"name": exp["name"], "n_atoms": len(exp["atoms"]), "n_pairs": len(exp["pairs"])}
    return {"reproduced": bool(fails), "same_clause": clause in fails if clause else None,
            "observed": fails.get(clause) or "; ".join(f"{k}: {v}" for k, v in list(fails.items())[:4]) or "all clauses hold",
            "violated": sorted(fails),
            "expected": (f"name {exp['name']!r}, {len(exp['atoms'])} atoms in file order, bond graph = {len(exp['pairs'])} listed pairs "
                         f"(symmetric), are_connected == {connected_oracle(len(exp['atoms']), exp['pairs'])}, copy equal and independent"),
            "inputs": shown}


# ---------------------------------------------------------------------------
# deductive part (contracts/d15_atoms_vc.py) wired in


def info(prop):
    from . import d15_atoms_vc as D
    d = _info_bounded(prop)
    h = D.deductive_info()
    d["functions"] = h["functions"] + d.get("functions", [])
    d["stubs"] = h["stubs"] + d.get("stubs", [])
    d["assumptions"] = h["assumptions"] + d.get("assumptions", [])
    d["explanation"] = h["explanation"] + d.get("explanation", "")
    d["trusted_base"] = ["z3 5.1", "vf/pyvc.py + vf/seq.py"] + d.get("trusted_base", [])
    return d


def tasks(prop, tier, seed):
    from . import d15_atoms_vc as D
    return list(D.deductive_tasks(prop, tier, seed)) + list(_tasks_bounded(prop, tier, seed))


def replay(prop, cex):
    if cex.get("kind") == "vc":
        # a failed proof obligation of _itp_top_atoms: look for a failing topology in the bounded scope of the real reader
        for name, fn, args, _lim in _tasks_bounded(prop, "quick", 0)[:10]:
            try:
                obs = fn(*args)
            except Exception:
                continue
            for o in obs:
                if o.get("status") == "refuted" and o.get("kind") != "guard" and o.get("cex"):
                    r = _replay_bounded(prop, o["cex"])
                    if r and r.get("reproduced"):
                        r["note"] = f"failed obligation {cex.get('obligation') or cex.get('signature')} manifests on the real reader"
                        return r
        return {"reproduced": False, "inputs": cex, "note": "no failing topology found in the bounded scope"}
    return _replay_bounded(prop, cex)
