"""C18 -- copies are isolated, views write through, rigid operations preserve shape.

Deductive part (symrun): the real Residue/Molecule.move / move_to / rotate run on symbolic coordinates,
displacement, target point and rotation matrix R in SO(3) (nine symbols with the orthogonality and
determinant equations) for every residue layout up to the bound:
  move      every atom translated by exactly the displacement  => all distances kept, centre moves by it
  move_to   geometric centre equals the requested point, all atoms translated by one common vector
  rotate    x -> com + R (x - com) with ONE centre for the whole (multi-residue) molecule: all pairwise
            distances kept (lemma |R d|^2 = |d|^2), centre fixed
Bounded part: contracts/b18_isolation.py (separation invariant, frames, views, histories).
"""
from __future__ import annotations

import numpy as np
import z3

from vf import symrun as S, core, spec
from vf import backends as BK
from vf.core import ob, discharge
from . import _merge, b18_isolation, xmap_harness as H

PROP = "C18"


def info(prop):
    base = {
        "level": "other",
        "functions": ["gaddlemaps/components/_residue.py::Residue.move", "gaddlemaps/components/_residue.py::Residue.move_to",
                      "gaddlemaps/components/_residue.py::Residue.rotate", "gaddlemaps/components/_residue.py::Residue.geometric_center",
                      "gaddlemaps/components/_residue.py::Residue.atoms_positions (getter/setter)",
                      "gaddlemaps/components/_components.py::Molecule.atoms_positions (getter/setter; move/move_to/rotate inherited)"],
        "stubs": [],
        "trusted_base": ["z3 5.1", "sympy Groebner (gb) / explicit certificates", "vf/symrun.py", "CPython/numpy on object arrays (A2)"],
        "assumptions": ["A1 float64 as reals", "A2 numpy object-dtype transparency",
                        "layout scope: residues of 1..4 atoms; molecules with residue layouts (2,1), (1,2), (2,2), (1,1,1); arbitrary size not proved"],
        "explanation": ("Geometric clauses: symbolic execution of the real move/move_to/rotate on real Residue and (multi-residue) Molecule objects, "
                        "all coordinates, displacements and rotations symbolic; VCs by z3 and certificate over the SO(3) norm lemma (gb). Structure-bounded. "),
        "rule": "deductive: one obligation per (class, operation, clause, layout)",
    }
    return _merge.merged_info(base, b18_isolation)


RM = [[z3.Real(f"R_{i}_{j}") for j in range(3)] for i in range(3)]


def _objects():
    """(name, object, n_atoms) with symbolic positions set later"""
    objs = []
    for n in (1, 2, 3, 4):
        mol = H.build_molecule("ONE", [f"C{i + 1}" for i in range(n)], [(i, i + 1) for i in range(n - 1)], H.default_coords(n, n))
        objs.append((f"Residue[{n}]", mol.residues[0], n))
    for lay in ((2, 1), (1, 2), (2, 2), (1, 1, 1)):
        n = sum(lay)
        resids, resnames = [], []
        for ri, k in enumerate(lay):
            resids += [ri + 1] * k
            resnames += [f"R{ri}"] * k
        mol = H.build_molecule("MUL", [f"C{i + 1}" for i in range(n)], [(i, i + 1) for i in range(n - 1)], H.default_coords(n, 7),
                               resids=resids, resnames=resnames)
        objs.append((f"Molecule[{'+'.join(map(str, lay))}]", mol, n))
    return objs


def _pts(n):
    return [[z3.Real(f"x_{i}_{k}") for k in range(3)] for i in range(n)]


def _norm_lemma():
    d = [z3.Real(f"so_d{k}") for k in range(3)]
    hy = spec.is_rotation_hyps(RM)
    rot = [spec.dot(RM[c], d) for c in range(3)]
    return discharge(f"{PROP}/lemma.rotation_preserves_norm", hy, spec.norm2(rot) == spec.norm2(d), backends=("gb", "z3"),
                     engine="symrun", timeout_ms=30000)


def task_geometry(seed):
    out = [_norm_lemma()]
    lemma_ok = out[0]["status"] == "discharged"
    so3 = spec.is_rotation_hyps(RM)
    for name, obj, n in _objects():
        cls = name.split("[")[0]
        X = _pts(n)

        def setpos():
            obj.atoms_positions = S.mat("x", n)

        cex0 = {"fn": "geom", "object": name}
        # ---- move
        def run_move(c):
            setpos()
            d = S.vec("d")
            obj.move(d)
            return S.terms(obj.atoms_positions), S.terms(d)
        p = S.explore(run_move)
        D = [z3.Real(f"d_{k}") for k in range(3)]
        if len(p) == 1 and p[0].exc is None:
            o_, dterms = p[0].result
            goal = z3.And(*[o_[3 * i + k] == X[i][k] + D[k] for i in range(n) for k in range(3)])
            out.append(discharge(f"{PROP}/{cls}.move/ensures.every_atom_translated_by_the_displacement/{name}", p[0].hyps(), goal,
                                 backends=("z3",), cex_builder=lambda m: dict(cex0, op="move")))
            out.append(discharge(f"{PROP}/{cls}.move/ensures.displacement_argument_unmodified/{name}", p[0].hyps(),
                                 z3.And(*[a == b for a, b in zip(dterms, D)]), backends=("z3",)))
        else:
            out.append(ob(f"{PROP}/{cls}.move/single-path/{name}", "refuted" if p and p[0].exc else "undecided", engine="symrun",
                          reason=repr(p[0].exc) if p else "", cex=dict(cex0, op="move") if p and p[0].exc else None))
        # ---- move_to
        def run_to(c):
            setpos()
            t = S.vec("t")
            obj.move_to(t)
            return S.terms(obj.atoms_positions), S.terms(obj.geometric_center)
        p = S.explore(run_to)
        T = [z3.Real(f"t_{k}") for k in range(3)]
        if len(p) == 1 and p[0].exc is None:
            o_, cen = p[0].result
            hy = p[0].hyps()
            out.append(discharge(f"{PROP}/{cls}.move_to/ensures.centre_at_requested_point/{name}", hy, z3.And(*[cen[k] == T[k] for k in range(3)]),
                                 backends=("z3",), cex_builder=lambda m: dict(cex0, op="move_to")))
            goal = z3.And(*[o_[3 * i + k] - X[i][k] == o_[k] - X[0][k] for i in range(n) for k in range(3)])
            out.append(discharge(f"{PROP}/{cls}.move_to/ensures.all_atoms_translated_by_one_common_vector/{name}", hy, goal, backends=("z3",),
                                 cex_builder=lambda m: dict(cex0, op="move_to")))
        else:
            out.append(ob(f"{PROP}/{cls}.move_to/single-path/{name}", "refuted" if p and p[0].exc else "undecided", engine="symrun",
                          reason=repr(p[0].exc) if p else "", cex=dict(cex0, op="move_to") if p and p[0].exc else None))
        # ---- move_to after a write through a live view: the centre must be that of the CURRENT coordinates
        if cls == "Molecule":
            def run_view(c):
                setpos()
                _ = obj.geometric_center                 # a read in between must not matter
                a0 = obj[0]
                a0.position = S.vec("w")                   # live view (statement: assigning through it changes the molecule)
                t = S.vec("t")
                obj.move_to(t)
                return S.terms(obj.geometric_center), S.terms(obj.atoms_positions)
            p = S.explore(run_view)
            if len(p) == 1 and p[0].exc is None:
                cen, o_ = p[0].result
                Wv = [z3.Real(f"w_{k}") for k in range(3)]
                out.append(discharge(f"{PROP}/{cls}.move_to/ensures.centre_at_requested_point_after_a_view_write/{name}", p[0].hyps(),
                                     z3.And(*[cen[k] == T[k] for k in range(3)]), backends=("z3",), cex_builder=lambda m: dict(cex0, op="view_move_to")))
                # the first atom carries the view-written position, translated like all others
                goal = z3.And(*[o_[k] - Wv[k] == o_[3 * (n - 1) + k] - X[n - 1][k] for k in range(3)]) if n > 1 else z3.BoolVal(True)
                out.append(discharge(f"{PROP}/{cls}.__getitem__/ensures.view_write_through_then_rigid_translation/{name}", p[0].hyps(), goal,
                                     backends=("z3",), cex_builder=lambda m: dict(cex0, op="view_move_to")))
            else:
                out.append(ob(f"{PROP}/{cls}.move_to/view-write/single-path/{name}", "refuted" if p and p[0].exc else "undecided", engine="symrun",
                              reason=repr(p[0].exc) if p else "", cex=dict(cex0, op="view_move_to") if p and p[0].exc else None))
        # ---- rotate
        def run_rot(c):
            setpos()
            R = S.mat("R", 3, 3)
            before = S.terms(R)
            obj.rotate(R)
            return S.terms(obj.atoms_positions), S.terms(obj.geometric_center), S.terms(R), before
        p = S.explore(run_rot, assumptions=so3)
        if len(p) == 1 and p[0].exc is None:
            o_, cen, Ra, Rb = p[0].result
            hy = p[0].hyps()
            com = [sum((X[i][k] for i in range(1, n)), X[0][k]) / n for k in range(3)]
            out.append(discharge(f"{PROP}/{cls}.rotate/ensures.centre_fixed/{name}", [], z3.And(*[cen[k] == com[k] for k in range(3)]),
                                 backends=("z3",), timeout_ms=10000, cex_builder=lambda m: dict(cex0, op="rotate")))
            for i in range(n):
                for j in range(i):
                    dv = spec.sub(X[i], X[j])
                    inst = spec.norm2([spec.dot(RM[c], dv) for c in range(3)]) == spec.norm2(dv)
                    oi = [o_[3 * i + k] for k in range(3)]
                    oj = [o_[3 * j + k] for k in range(3)]
                    goal = spec.norm2(spec.sub(oi, oj)) == spec.norm2(dv)
                    oid = f"{PROP}/{cls}.rotate/ensures.pairwise_distance_preserved[{j},{i}]/{name}"
                    v = BK.cert_check([inst], goal, [(z3.RealVal(1), inst)]) if lemma_ok else None
                    if v is not None and v.status == "discharged":
                        out.append(ob(oid, "discharged", engine="symrun", backend="cert", secs=v.secs))
                    else:
                        out.append(discharge(oid, so3, goal, backends=("gb", "z3"), timeout_ms=20000, cex_builder=lambda m: dict(cex0, op="rotate")))
            out.append(discharge(f"{PROP}/{cls}.rotate/ensures.matrix_argument_unmodified/{name}", hy, z3.And(*[a == b for a, b in zip(Ra, Rb)]),
                                 backends=("z3",)))
            if n > 1:
              out.append(core.must_fail(f"{PROP}/{cls}.rotate/guard.must-fail/{name}", so3, o_[0] == X[0][0], timeout_ms=4000,
                                        hint=[RM[0][0] == 0, RM[0][1] == -1, RM[1][0] == 1, RM[1][1] == 0, RM[2][2] == 1, RM[0][2] == 0, RM[1][2] == 0,
                                              RM[2][0] == 0, RM[2][1] == 0] + [X[i][k] == i + 2 * k + 1 for i in range(n) for k in range(3)]))
        else:
            out.append(ob(f"{PROP}/{cls}.rotate/single-path/{name}", "refuted" if p and p[0].exc else "undecided", engine="symrun",
                          reason=repr(p[0].exc) if p else "", cex=dict(cex0, op="rotate") if p and p[0].exc else None))
    return _compress(out)


def _compress(obs):
    keep, fam = [], {}
    for o in obs:
        if o["status"] != "discharged" or o.get("kind") == "guard" or "lemma" in o["id"]:
            keep.append(o)
            continue
        key = "/".join(o["id"].split("/")[:3]).split("[")[0]
        f = fam.setdefault(key, {"n": 0, "secs": 0.0, "first": o, "b": set()})
        f["n"] += 1
        f["secs"] += o.get("secs", 0.0)
        f["b"].add(o.get("backend"))
    for key, f in fam.items():
        o = dict(f["first"])
        o["id"] = key
        o["evaluations"] = o["nontrivial"] = f["n"]
        o["secs"] = f["secs"]
        o["backend"] = "+".join(sorted(x for x in f["b"] if x))
        o["sample"] = {"first_instance": f["first"]["id"], "instances_discharged": f["n"]}
        keep.append(o)
    return keep


def tasks(prop, tier, seed):
    t = [("geometry/symrun", task_geometry, (seed,), 900.0)]
    t += b18_isolation.bounded_tasks(prop, tier, seed)
    return t


def replay(prop, cex):
    if str(cex.get("fn", "")).startswith("b18:"):
        return b18_isolation.replay(prop, cex)
    rng = np.random.default_rng(0)
    for name, obj, n in _objects():
        if name != cex.get("object"):
            continue
        for _ in range(20):
            X = rng.normal(size=(n, 3)) * 3
            obj.atoms_positions = X.copy()
            op = cex.get("op")
            try:
                if op == "move":
                    d = rng.normal(size=3)
                    obj.move(d)
                    bad = not np.allclose(obj.atoms_positions, X + d, atol=1e-9)
                elif op == "view_move_to":
                    _ = obj.geometric_center
                    w = rng.normal(size=3)
                    a0 = obj[0]
                    a0.position = w
                    t = rng.normal(size=3)
                    obj.move_to(t)
                    Xn = X.copy()
                    Xn[0] = w
                    bad = not np.allclose(obj.atoms_positions.mean(axis=0), t, atol=1e-9) or not np.allclose(obj.atoms_positions - Xn, (obj.atoms_positions - Xn)[0], atol=1e-9)
                elif op == "move_to":
                    t = rng.normal(size=3)
                    obj.move_to(t)
                    bad = not np.allclose(obj.geometric_center, t, atol=1e-9) or not np.allclose(obj.atoms_positions - X, (obj.atoms_positions - X)[0], atol=1e-9)
                else:
                    q = rng.normal(size=4)
                    q /= np.linalg.norm(q)
                    w, x, y, z = q
                    R = np.array([[1 - 2 * (y * y + z * z), 2 * (x * y - z * w), 2 * (x * z + y * w)],
                                  [2 * (x * y + z * w), 1 - 2 * (x * x + z * z), 2 * (y * z - x * w)],
                                  [2 * (x * z - y * w), 2 * (y * z + x * w), 1 - 2 * (x * x + y * y)]])
                    obj.rotate(R)
                    com = X.mean(axis=0)
                    bad = not np.allclose(obj.atoms_positions, com + (X - com) @ R.T, atol=1e-9)
            except Exception as e:
                return {"reproduced": True, "observed": f"raises {type(e).__name__}: {e}", "inputs": cex}
            if bad:
                return {"reproduced": True, "observed": obj.atoms_positions.tolist(), "inputs": dict(cex, X=X.tolist())}
    return {"reproduced": False, "inputs": cex}
