#!/bin/bash
# Build the overlay venv used by every check (offline; idempotent).
set -e
cd "$(dirname "$0")"
V=.venv
if [ -x "$V/bin/python" ] && "$V/bin/python" -c "import z3, sympy, numpy, scipy, jsonschema, gaddlemaps" 2>/dev/null; then
  echo "setup: $V already usable"; exit 0
fi
rm -rf "$V"
/venv/bin/python -m venv "$V"
PIP_NO_INDEX=1 "$V/bin/pip" install -q --no-index --find-links /opt/veriftools/wheels \
   z3-solver cvc5 sympy crosshair-tool icontract deal jsonschema
SP=$("$V/bin/python" -c "import sysconfig; print(sysconfig.get_paths()['purelib'])")
echo "import site; site.addsitedir('/venv/lib/python3.12/site-packages')" > "$SP/_overlay.pth"
"$V/bin/python" -c "import z3, sympy, numpy, scipy, jsonschema, gaddlemaps; print('setup ok', z3.get_version_string(), sympy.__version__, numpy.__version__)"
