#!/bin/bash
# re-runs every stored behaviour-preserving refactor (refactors/<name>/patch.diff) against the current checks (self-test tooling):
# expected "quiet" (exit 0, no VIOLATION); UNDECIDED lines are allowed.  usage: tools/reeval_refactors.sh [parallel jobs]
# properties: meta.json "properties" when present, else the Cxx prefix of the directory name
cd "$(dirname "$0")/.."
PAR=${1:-3}
ls refactors | xargs -P $PAR -I{} bash -c 'd={}; p=$(python3 -c "import json,sys; m=json.load(open(\"refactors/$d/meta.json\")); print(\",\".join(m.get(\"properties\") or [\"$d\".split(\"_\")[0]]))" 2>/dev/null || echo ${d%%_*}); python3 tools/eval_refactor.py refactors/$d $p 2>&1 | grep "^REFACTOR"'
