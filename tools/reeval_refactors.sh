#!/bin/bash
# re-runs every stored behaviour-preserving refactor (refactors/<id>_<n>/patch.diff) against the current checks (self-test tooling):
# expected "quiet" (exit 0, no VIOLATION); UNDECIDED lines are allowed.  usage: tools/reeval_refactors.sh [parallel jobs]
cd "$(dirname "$0")/.."
PAR=${1:-3}
ls refactors | xargs -P $PAR -I{} bash -c 'd={}; p=${d%%_*}; python3 tools/eval_refactor.py refactors/$d $p 2>&1 | grep "^REFACTOR"'
