#!/usr/bin/env python3
"""print python sources with docstrings stripped (reading aid)"""
import ast,sys
for f in sys.argv[1:]:
    t=ast.parse(open(f).read())
    for n in ast.walk(t):
        if isinstance(n,(ast.FunctionDef,ast.ClassDef,ast.Module)):
            if n.body and isinstance(n.body[0],ast.Expr) and isinstance(getattr(n.body[0],'value',None),ast.Constant) and isinstance(n.body[0].value.value,str):
                n.body[0].value.value='.'
    print('#'*20,f); print(ast.unparse(t))
