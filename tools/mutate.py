#!/usr/bin/env python3
"""Mutation self-test helper (not a registered check).
usage: tools/mutate.py <PROP[,PROP..]> <relpath> <old> <new> [--tier quick] [--count N]
Applies one textual replacement in a scratch worktree of /repo (under /tmp, removed afterwards)
and runs ./check with VERIF_REPO pointing at it."""
import os, subprocess, sys, tempfile, shutil
props, rel, old, new = sys.argv[1:5]
extra = sys.argv[5:]
wt = tempfile.mkdtemp(prefix="wt_mut_")
os.rmdir(wt)
subprocess.check_call(["git", "-C", "/repo", "worktree", "add", "-q", "--detach", wt, "HEAD"])
try:
    if rel.startswith("revert:"):
        subprocess.check_call(["git", "-C", wt, "revert", "--no-commit", rel.split(":", 1)[1]])
    else:
        p = os.path.join(wt, rel)
        s = open(p).read()
        n = s.count(old)
        if n != 1:
            print(f"MUTATE: pattern occurs {n} times in {rel}", file=sys.stderr); sys.exit(2)
        open(p, "w").write(s.replace(old, new))
    env = dict(os.environ, VERIF_REPO=wt)
    for prop in props.split(","):
        r = subprocess.run(["./check", prop] + extra, cwd="/verif", env=env, capture_output=True, text=True)
        lines = [l for l in r.stdout.splitlines() if l.startswith(("VIOLATION", "C", "UNDECIDED", "KNOWN", "GUARD", "  obligation"))]
        print(f"--- {prop} exit={r.returncode}")
        print("\n".join(lines[:14]))
finally:
    subprocess.call(["git", "-C", "/repo", "worktree", "remove", "--force", wt])
    shutil.rmtree(wt, ignore_errors=True)
    # evidence was rewritten by the mutated run: the caller should re-run the check on /repo before committing
