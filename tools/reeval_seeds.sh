#!/bin/bash
# re-runs every stored seeded change against the current checks (self-test tooling): prints CAUGHT / MISSED per change
cd "$(dirname "$0")/.."
PAR=${1:-3}
ls seeded | xargs -P $PAR -I{} bash -c 'd={}; p=${d%%_*}; wt=$(mktemp -d /tmp/wt_seed_XXXXXX); rmdir $wt; git -C /repo worktree add -q --detach $wt HEAD >/dev/null 2>&1; if git -C $wt apply --whitespace=nowarn /verif/seeded/$d/patch.diff 2>/dev/null; then out=$(VERIF_REPO=$wt ./check $p 2>&1); rc=$?; n=$(echo "$out" | grep -c "^VIOLATION"); if [ $rc -eq 1 ] && [ $n -gt 0 ]; then echo "CAUGHT $d ($n)"; else echo "MISSED $d rc=$rc"; fi; else echo "NOAPPLY $d"; fi; git -C /repo worktree remove --force $wt >/dev/null 2>&1; rm -rf $wt'
