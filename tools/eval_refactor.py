#!/usr/bin/env python3
"""Benign-refactor self-test helper (not a registered check).
usage: tools/eval_refactor.py <dir with patch.diff> <PROP[,PROP..]> [--tier quick]
Applies a behaviour-preserving patch in a scratch worktree of /repo (under /tmp, removed afterwards) and runs ./check with
VERIF_REPO pointing at it.  Expected: exit 0 and no VIOLATION line (UNDECIDED lines are allowed: outside the verified subset)."""
import json, os, subprocess, sys, tempfile, shutil
d, props = sys.argv[1], sys.argv[2]
extra = sys.argv[3:]
wt = tempfile.mkdtemp(prefix="wt_ref_")
os.rmdir(wt)
subprocess.check_call(["git", "-C", "/repo", "worktree", "add", "-q", "--detach", wt, "HEAD"])
res = {}
try:
    r = subprocess.run(["git", "-C", wt, "apply", "--whitespace=nowarn", os.path.abspath(os.path.join(d, "patch.diff"))], capture_output=True, text=True)
    if r.returncode:
        print(f"REFACTOR {d}: patch does not apply: {r.stderr.strip()[:200]}")
        sys.exit(2)
    env = dict(os.environ, VERIF_REPO=wt)
    for prop in props.split(","):
        r = subprocess.run(["./check", prop] + extra, cwd="/verif", env=env, capture_output=True, text=True)
        viol = [l for l in r.stdout.splitlines() if l.startswith("VIOLATION")]
        und = [l for l in r.stdout.splitlines() if l.startswith("UNDECIDED")]
        summ = [l for l in r.stdout.splitlines() if l.startswith(prop + " [")]
        verdict = "FALSE-ALARM" if (r.returncode != 0 or viol) else ("quiet+undecided" if und else "quiet")
        print(f"REFACTOR {os.path.basename(d.rstrip('/'))} {prop}: {verdict} exit={r.returncode} violations={len(viol)} undecided={len(und)} :: {summ[-1] if summ else ''}")
        for l in (viol[:4] + und[:4]):
            print("    " + l[:300])
        res[prop] = verdict
finally:
    subprocess.call(["git", "-C", "/repo", "worktree", "remove", "--force", wt])
    shutil.rmtree(wt, ignore_errors=True)
