#!/bin/bash
# Runs the pinned test suite of /repo (guard off) and compares with BASELINE.json stable_pass.
OUT=${1:-/tmp/baseline_junit.xml}
cd /repo && env -u GADDLEMAPS_VERIF /venv/bin/python -m pytest -ra -q -p no:cacheprovider --timeout=900 --continue-on-collection-errors --junitxml=$OUT > /tmp/baseline_pytest.log 2>&1
/venv/bin/python - "$OUT" <<'PY'
import sys, json, xml.etree.ElementTree as ET
base=json.load(open('/root/.vp/BASELINE.json'))
t=ET.parse(sys.argv[1])
passed=set()
for tc in t.iter('testcase'):
    if not any(ch.tag in ('failure','error','skipped') for ch in tc):
        passed.add(f"{tc.get('classname')}::{tc.get('name')}")
missing=[x for x in base['stable_pass'] if x not in passed]
print('passed',len(passed),'stable_pass missing:',missing)
sys.exit(1 if missing else 0)
PY
