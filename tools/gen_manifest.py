#!/usr/bin/env python3
"""Regenerates MANIFEST.json from the table below (run from /verif)."""
import json, os, sys
HERE = os.path.dirname(os.path.dirname(os.path.abspath(__file__)))
TECH = "contract-based deductive verification"
CHECKS = {
 "C17": dict(cat="proof", engine="symrun",
   text="Every postcondition clause of rotation_matrix and calcule_base taken from the property statement is discharged for all real inputs on every path of the real function (loop-free, fully symbolic => complete); the bounded float twin of the same clauses is reported separately and not counted as proved.",
   note="A1 float64 as exact reals; A2 numpy object-dtype transparency (concolically cross-checked); A4 trig axioms; trusted: z3, sympy, CPython/numpy, vf/symrun.py",
   tech=TECH + ": symbolic execution of the real functions, per-path VCs discharged by z3 / Groebner ideal membership", ref="DESIGN.md section 6 C17"),
 "C19": dict(cat="proof", engine="symrun",
   text="Residue.distance_to runs on fully symbolic coordinates and boxes (one path). Orthorhombic boxes: result^2 equals sum (d_i - L_i k_i)^2 for the code's integers k and is <= the same sum for every integer vector n (free integer symbols: all images), hence <= the direct distance. General non-singular boxes: symmetry, invariance under symbolic integer lattice shifts of either argument, inverse-flag equivalence. Every clause is discharged by scripted z3 / Groebner / explicit-certificate steps; the bounded float twin is separate.",
   note="A1 float64 as reals; A2; A3 contract of numpy.linalg.inv (two-sided inverse, functional) and numpy.round (nearest integer); ties excluded as in the statement; trusted: z3, sympy, vf/symrun.py",
   tech=TECH + ": symbolic execution of the real method with contract stubs for numpy.linalg.inv / numpy.round, scripted SMT + ideal-membership proofs", ref="DESIGN.md section 6 C19"),
}
NOT_YET = "check not built yet in this round (work in progress; see DESIGN.md section 6 for the plan)"
NA = {}
def main():
    props = [json.loads(l)["id"] for l in open(os.path.join(HERE, "properties.jsonl"))]
    checks = []
    for pid in props:
        if pid not in CHECKS:
            continue
        c = CHECKS[pid]
        checks.append({
            "property_id": pid,
            "quick_cmd": f"./check {pid} --tier quick",
            "thorough_cmd": f"./check {pid} --tier thorough",
            "evidence_file": f"evidence/{pid}.json",
            "replay_cmd_template": f"./check {pid} --replay {{path}}",
            "engine": c["engine"],
            "level_claimed": {"category": c["cat"], "text": c["text"], "design_ref": c["ref"]},
            "level_note": c["note"],
            "technique": c["tech"],
        })
    engines = [
      {"name": "symrun", "path": "vf/symrun.py", "kind_free_text": "executes the real function objects of /repo on symbolic reals (z3 proxies in numpy object arrays), enumerates every path, emits path-condition => postcondition VCs; callees replaced by their contracts"},
      {"name": "pyvc", "path": "vf/pyvc.py", "kind_free_text": "VC generation from the AST of the real function (re-parsed every run) with sidecar loop invariants and call-site assertions"},
      {"name": "smallscope", "path": "vf/smallscope.py", "kind_free_text": "bounded stand-in: the same contracts evaluated at run time on the real objects over exhaustively enumerated finite scopes (labelled bounded, never counted as proved)"},
      {"name": "backends", "path": "vf/backends.py", "kind_free_text": "z3 5.1 (API), sympy Groebner ideal membership (gb), cvc5 1.0.3 CLI, z3 4.8.12 CLI"},
    ]
    for e in engines:
        e["serves_properties"] = sorted(p for p, c in CHECKS.items() if e["name"] in c["engine"] or e["name"] == "backends")
    engines = [e for e in engines if os.path.exists(os.path.join(HERE, e["path"]))]
    man = {
      "version": 1,
      "setup_cmd": "bash setup.sh",
      "hooks": {
        "guard": "GADDLEMAPS_VERIF",
        "enable": "no source hooks: the checker process binds contract stubs and wrappers into module namespaces of the imported /repo package; GADDLEMAPS_VERIF=1 is exported by ./check but read by nothing in /repo",
        "baseline_off_cmd": "cd /repo && /venv/bin/python -m pytest -ra -q -p no:cacheprovider --timeout=900 --continue-on-collection-errors",
        "source_commits": [],
        "add_only": True,
      },
      "engines": engines,
      "checks": checks,
      "not_applicable": [{"property_id": p, "reason": NA.get(p, NOT_YET)} for p in props if p not in CHECKS],
      "notes": "One contract layer (contracts/*.py, sidecar; /repo untouched), three engines. Deductive obligations and bounded contract checks are counted separately in every evidence file. Known findings / fixed defects: known_findings.json.",
    }
    json.dump(man, open(os.path.join(HERE, "MANIFEST.json"), "w"), indent=1)
    print("wrote MANIFEST.json:", len(checks), "checks,", len(man["not_applicable"]), "not applicable")
main()
