#!/usr/bin/env python3
"""Regenerates MANIFEST.json from the table below (run from /verif)."""
import json, os, sys
HERE = os.path.dirname(os.path.dirname(os.path.abspath(__file__)))
TECH = "contract-based deductive verification"
BND = "bounded run-time contract checking of the real code over an exhaustively enumerated finite scope (stand-in for functions outside the verifier's reach; labelled bounded, never counted as proved)"
CHECKS = {
 "C05": dict(cat="other", engine="smallscope",
   text="Contracts on Manager.extrapolate_system / complete_correspondence / calculate_exchange_maps taken from the statement are evaluated at run time on the real Manager/System/ExchangeMap/GroFile over every molecule sequence up to the bound x every subset of species given an end molecule x box kinds x scale factors, against an oracle computed from the generated input. Bounded only; no obligation is counted as proved.",
   note="bounded scope (sequences <= 3 quick / <= 5 thorough over 4 species); trusted: CPython, numpy, the check's own .gro formatter/parser; exchange-map values taken from the real ExchangeMap (its correctness is C01-C04)",
   tech=BND, ref="DESIGN.md section 6 C05"),
 "C07": dict(cat="other", engine="symrun",
   text="move_mol_atom: for every labelled tree on 2..5 (quick) / 2..6 (+ sampled 7) atoms and every moved atom the real function runs on fully symbolic coordinates, bond table and displacement (one path); the postconditions (moved atom displaced exactly, every tabulated bond has its tabulated length, input unmodified, termination, sqrt arguments non-negative) are discharged by z3 for all real inputs of that structure; cyclic graphs: exact bonds contain a spanning tree. find_atom_random_displ: loop-free, proved for all inputs and all random draws per neighbour-count class. Structure-bounded, hence 'other', not 'proof'.",
   note="A1 float64 as reals; A2 object-dtype transparency (concolic check per instance); generic-position precondition (no intermediate distance is zero) assumed; arbitrary molecule size not proved",
   tech="contract-based deductive verification: symbolic execution of the real functions per discrete structure, VCs discharged by z3; structure enumeration bounded", ref="DESIGN.md section 6 C07"),
 "C09": dict(cat="proof", engine="pyvc+symrun",
   text="accept_metropolis: every path of the real function on symbolic energies/acceptance/draw (complete). _minimize_molecules: VCs generated from the AST of the real function, loop invariant over ghost state (held configuration, lowest measure, steps since last new lowest), call-site assertions, transition and exit postconditions -- all discharged by z3 for every iteration count and every random stream (draws are universally quantified symbols). minimize_molecules wrapper: parameter forwarding. Bounded twins (monitored real loop; real loop with scripted callees, exhaustive to a choice depth) are separate and not counted as proved.",
   note="callees by contract (Chi2Calculator pure and >= 0: C08; move_mol_atom: C07; rotation_matrix: C17); numpy array +,-,dot,mean as uninterpreted row-wise operations; termination not proved; compiled back end absent; trusted: z3, vf/pyvc.py, vf/symrun.py",
   tech="contract-based deductive verification: AST-level VC generation with loop invariant and ghost state (pyvc) + symbolic execution (symrun), z3", ref="DESIGN.md section 6 C09"),
 "C11": dict(cat="other", engine="smallscope",
   text="Contracts on System.__init__/add_molecule_top/__iter__/__getitem__/__len__/composition from the statement, evaluated on the real classes for every molecule sequence up to the bound over 4 species and every topology loading order, oracle = the generator's own record list. Bounded only.",
   note="bounded scope (sequences <= 4 quick / <= 6 thorough, all loading orders); no deductive obligation (run matching over consumed numpy arrays inside a class)",
   tech=BND, ref="DESIGN.md section 6 C11"),
 "C12": dict(cat="other", engine="smallscope",
   text="Contracts on SystemGro iteration / len / n_atoms / box / title and random access as a single-step obligation from every forced cursor position and after every partial iteration, on generated files (all residue-kind sequences up to the bound, four numbering schemes, velocities on/off) against an independent parse. Bounded only.",
   note="bounded scope (kind sequences <= 4 quick / <= 5 thorough; seeded long files); history length covered by the single-step-from-any-cursor reduction (state scope bounded)",
   tech=BND, ref="DESIGN.md section 6 C12"),
 "C14": dict(cat="other", engine="smallscope",
   text="Reader contract (accepted prefix => reaches into the box line and returns exactly the complete file's records) on every byte prefix of generated and shipped files; writer contract (every flushed state before close() returns is rejected) at every low-level write/seek of real writer sessions. Bounded only.",
   note="bounded scope (1..4 records quick / 1..8 thorough, shipped files); operation granularity = each low-level write/seek of the underlying file; OS-level atomicity not modelled",
   tech=BND, ref="DESIGN.md section 6 C14"),
 "C15": dict(cat="other", engine="smallscope+static",
   text="Static obligation (discharged on the AST): are_connected and its callees are not recursive. Bounded contract checks of read_topology / MoleculeTop / are_connected / copy on every labelled graph on <= 4 atoms x every split of edges over bonds/constraints/pairs x decoration variants, large chains/stars/trees/forests (1000-3000 atoms) and the 16 shipped topologies against an independent parse.",
   note="bounded scope as stated; the recursion obligation is syntactic (call graph of components/__init__.py)",
   tech=BND + "; plus one static call-graph obligation", ref="DESIGN.md section 6 C15"),
 "C16": dict(cat="other", engine="smallscope",
   text="Round-trip contracts on ItpLine (parse_itp_line + line) for every string up to length 6/7 over a small alphabet and on ItpFile read-write-read for every file of <= 4 (quick) / <= 5-6 lines over ten line kinds incl. repeated section headers and empty/multiple trailing comments, plus the 16 shipped topologies; oracle = an independent reference reading of the text. Bounded only.",
   note="bounded scope as stated; no deductive obligation (regular expressions and split/join chains are outside what the SMT string solvers decide here)",
   tech=BND, ref="DESIGN.md section 6 C16"),
 "C17": dict(cat="proof", engine="symrun",
   text="Every postcondition clause of rotation_matrix and calcule_base taken from the property statement is discharged for all real inputs on every path of the real function (loop-free, fully symbolic => complete); the bounded float twin of the same clauses is reported separately and not counted as proved.",
   note="A1 float64 as exact reals; A2 numpy object-dtype transparency (concolically cross-checked); A4 trig axioms; trusted: z3, sympy, CPython/numpy, vf/symrun.py",
   tech=TECH + ": symbolic execution of the real functions, per-path VCs discharged by z3 / Groebner ideal membership", ref="DESIGN.md section 6 C17"),
 "C19": dict(cat="proof", engine="symrun",
   text="Residue.distance_to runs on fully symbolic coordinates and boxes (one path). Orthorhombic boxes: result^2 equals sum (d_i - L_i k_i)^2 for the code's integers k and is <= the same sum for every integer vector n (free integer symbols: all images), hence <= the direct distance. General non-singular boxes: symmetry, invariance under symbolic integer lattice shifts of either argument, inverse-flag equivalence. Every clause is discharged by scripted z3 / Groebner / explicit-certificate steps; the bounded float twin is separate.",
   note="A1 float64 as reals; A2; A3 contract of numpy.linalg.inv (two-sided inverse, functional) and numpy.round (nearest integer); ties excluded as in the statement; trusted: z3, sympy, vf/symrun.py",
   tech=TECH + ": symbolic execution of the real method with contract stubs for numpy.linalg.inv / numpy.round, scripted SMT + ideal-membership proofs", ref="DESIGN.md section 6 C19"),
 "C20": dict(cat="other", engine="smallscope",
   text="classify_files: exact classification over an enumerated name set. sort_molecules: postcondition required for every iteration order of both candidate sets (classify_files stubbed by adversarially ordered set objects = hash-seed independence stated in the callee's contract), every explicit subset, generated and shipped directories. main/auto_map: protocol contract with Manager replaced by a recorder over 870 argv vectors; 8 end-to-end byte comparisons with the library workflow under the same seed. Bounded only.",
   note="bounded scope as stated; interpreter hash seeds replaced by adversarial iteration orders (+ a small real PYTHONHASHSEED sweep)",
   tech=BND, ref="DESIGN.md section 6 C20"),
}
NOT_YET = "check not built yet in this round (work in progress; see DESIGN.md section 6 for the plan)"
NA = {}
def main():
    props = [json.loads(l)["id"] for l in open(os.path.join(HERE, "properties.jsonl"))]
    checks = []
    for pid in props:
        if pid not in CHECKS:
            continue
        c = CHECKS[pid]
        checks.append({
            "property_id": pid,
            "quick_cmd": f"./check {pid} --tier quick",
            "thorough_cmd": f"./check {pid} --tier thorough",
            "evidence_file": f"evidence/{pid}.json",
            "replay_cmd_template": f"./check {pid} --replay {{path}}",
            "engine": c["engine"],
            "level_claimed": {"category": c["cat"], "text": c["text"], "design_ref": c["ref"]},
            "level_note": c["note"],
            "technique": c["tech"],
        })
    engines = [
      {"name": "symrun", "path": "vf/symrun.py", "kind_free_text": "executes the real function objects of /repo on symbolic reals (z3 proxies in numpy object arrays), enumerates every path, emits path-condition => postcondition VCs; callees replaced by their contracts"},
      {"name": "pyvc", "path": "vf/pyvc.py", "kind_free_text": "VC generation from the AST of the real function (re-parsed every run) with sidecar loop invariants and call-site assertions"},
      {"name": "smallscope", "path": "vf/smallscope.py", "kind_free_text": "bounded stand-in: the same contracts evaluated at run time on the real objects over exhaustively enumerated finite scopes (labelled bounded, never counted as proved)"},
      {"name": "backends", "path": "vf/backends.py", "kind_free_text": "z3 5.1 (API), sympy Groebner ideal membership (gb), cvc5 1.0.3 CLI, z3 4.8.12 CLI"},
    ]
    for e in engines:
        e["serves_properties"] = sorted(p for p, c in CHECKS.items() if e["name"] in c["engine"] or e["name"] == "backends")
    engines = [e for e in engines if os.path.exists(os.path.join(HERE, e["path"]))]
    man = {
      "version": 1,
      "setup_cmd": "bash setup.sh",
      "hooks": {
        "guard": "GADDLEMAPS_VERIF",
        "enable": "no source hooks: the checker process binds contract stubs and wrappers into module namespaces of the imported /repo package; GADDLEMAPS_VERIF=1 is exported by ./check but read by nothing in /repo",
        "baseline_off_cmd": "cd /repo && /venv/bin/python -m pytest -ra -q -p no:cacheprovider --timeout=900 --continue-on-collection-errors",
        "source_commits": [],
        "add_only": True,
      },
      "engines": engines,
      "checks": checks,
      "not_applicable": [{"property_id": p, "reason": NA.get(p, NOT_YET)} for p in props if p not in CHECKS],
      "notes": "One contract layer (contracts/*.py, sidecar; /repo untouched), three engines. Deductive obligations and bounded contract checks are counted separately in every evidence file. Known findings / fixed defects: known_findings.json.",
    }
    json.dump(man, open(os.path.join(HERE, "MANIFEST.json"), "w"), indent=1)
    print("wrote MANIFEST.json:", len(checks), "checks,", len(man["not_applicable"]), "not applicable")
main()
