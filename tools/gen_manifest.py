#!/usr/bin/env python3
"""Regenerates MANIFEST.json from the table below (run from /verif)."""
import json, os, sys
HERE = os.path.dirname(os.path.dirname(os.path.abspath(__file__)))
TECH = "contract-based deductive verification"
BND = "bounded run-time contract checking of the real code over an exhaustively enumerated finite scope (stand-in for functions outside the verifier's reach; labelled bounded, never counted as proved)"
CHECKS = {
 "C01": dict(cat="other", engine="symrun",
   text="Kernels _proyect_point/_restore_point: proved for all inputs. _find_closest_ref: nearest reference key for all coordinates and every key set up to 3 (quick) / 4 anchors. Glue ExchangeMap(ref,tgt,s)(ref): the real classes run on real Molecule objects with symbolic coordinates and scale for every bond graph on 3 atoms and a representative/all set on 4 atoms, calcule_base by its proved contract; per path the law out_j = a + s(q_j - a) is a lemma call (lemma proved once by Groebner ideal membership) plus a polynomial identity; s=1 reproduces the target; frames of inputs. Structure-bounded, all real coordinates; float twin on generic/collinear/axis-aligned geometries separate.",
   note="A1, A2; calcule_base and scipy euclidean by contract; structure scope stated in evidence; arbitrary molecule size not proved",
   tech=TECH + ": symbolic execution of the real classes per structure, callees by contract, lemma calls, z3 + Groebner", ref="DESIGN.md section 6 C01"),
 "C02": dict(cat="other", engine="symrun",
   text="Same harness, map applied at P and at R P + t with R in SO(3) symbolic. calcule_base equivariance (frame rows rotate with the points, non-collinear input) is PROVED on the real function by two symbolic runs and a scripted proof; generic anchors: out' = R out + t from that clause (certificate); every anchor incl. collinear, and 2-/1-atom references with the random completion as fresh symbols: distance to anchor, coordinate along the axis (and hence distance from the axis) preserved from orthonormality alone; the axis itself moves rigidly (scripted proof); two-atom references build the frame axis from the bond. Structure-bounded.",
   note="A1, A2, A7 (random draws are not exactly degenerate); structure scope as in C01; calcule_base by contract in the glue runs, its equivariance clause proved separately on the real code",
   tech=TECH + ": symbolic execution per structure, explicit polynomial certificates, Groebner lemmas", ref="DESIGN.md section 6 C02"),
 "C03": dict(cat="other", engine="symrun",
   text="Map built at P, applied to an independent symbolic conformation P': distance to the anchor = s x construction distance and mutual distances of atoms sharing an anchor scale by s (lemma instances N1/N3 + certificate); locality as a free-symbol frame: the mapped atom's term mentions only the new coordinates of its anchor and the anchor's two lowest-numbered bonded atoms; frames built from exactly those atoms. Structure-bounded; float twin separate.",
   note="A1, A2; calcule_base by contract as an uninterpreted function of its nine inputs (locality is then decided by congruence/free symbols)",
   tech=TECH + ": symbolic execution per structure, lemma calls + certificates", ref="DESIGN.md section 6 C03"),
 "C04": dict(cat="other", engine="symrun+smallscope",
   text="Single-step obligation from ANY prior content of the per-anchor frames (fresh junk symbols = any call history): the result mentions no stale frame, equals the value determined by construction data and argument, leaves argument/construction molecules untouched, shares no array with them; by induction over the call sequence this covers every history length (state scope: structures up to the bound). Bounded part: exhaustive call sequences up to length 3/4 with rejected arguments and mutation of construction molecules on the real objects.",
   note="A1, A2; induction over the history is the two-line argument in DESIGN; TypeError clauses are bounded only",
   tech=TECH + " (single-step obligation under an arbitrary-state abstraction) + bounded run-time contract checking", ref="DESIGN.md section 6 C04"),
 "C05": dict(cat="other", engine="pyvc+smallscope",
   text="Deductive core (pyvc, systems of any length and composition): loop invariants of Manager.extrapolate_system with a ghost prefix sum (running atom counter = 1 + records written, skipped species write nothing, the records of molecule i are the atoms of its mapped molecule in order), pre-flight SystemError raised before the file is opened and only when nothing is complete or a map is missing, title and box assigned before the first record. Bounded: contracts on Manager.extrapolate_system / complete_correspondence / calculate_exchange_maps taken from the statement are evaluated at run time on the real Manager/System/ExchangeMap/GroFile over every molecule sequence up to the bound x every subset of species given an end molecule x box kinds x scale factors, against an oracle computed from the generated input.",
   note="bounded scope (sequences <= 3 quick / <= 5 thorough over 4 species); trusted: CPython, numpy, the check's own .gro formatter/parser; exchange-map values taken from the real ExchangeMap (its correctness is C01-C04)",
   tech=TECH + " of the extrapolation loop (pyvc) + " + BND, ref="DESIGN.md section 6 C05"),
 "C07": dict(cat="other", engine="symrun",
   text="move_mol_atom: for every labelled tree on 2..5 (quick) / 2..6 (+ sampled 7) atoms and every moved atom the real function runs on fully symbolic coordinates, bond table and displacement (one path); the postconditions (moved atom displaced exactly, every tabulated bond has its tabulated length, input unmodified, termination, sqrt arguments non-negative) are discharged by z3 for all real inputs of that structure; cyclic graphs: exact bonds contain a spanning tree. find_atom_random_displ: loop-free, proved for all inputs and all random draws per neighbour-count class. Structure-bounded, hence 'other', not 'proof'.",
   note="A1 float64 as reals; A2 object-dtype transparency (concolic check per instance); generic-position precondition (no intermediate distance is zero) assumed; arbitrary molecule size not proved",
   tech="contract-based deductive verification: symbolic execution of the real functions per discrete structure, VCs discharged by z3; structure enumeration bounded", ref="DESIGN.md section 6 C07"),
 "C09": dict(cat="proof", engine="pyvc+symrun",
   text="accept_metropolis: every path of the real function on symbolic energies/acceptance/draw (complete). _minimize_molecules: VCs generated from the AST of the real function, loop invariant over ghost state (held configuration, lowest measure, steps since last new lowest), call-site assertions, transition and exit postconditions -- all discharged by z3 for every iteration count and every random stream (draws are universally quantified symbols). minimize_molecules wrapper: parameter forwarding. Bounded twins (monitored real loop; real loop with scripted callees, exhaustive to a choice depth) are separate and not counted as proved.",
   note="callees by contract (Chi2Calculator pure and >= 0: C08; move_mol_atom: C07; rotation_matrix: C17); numpy array +,-,dot,mean as uninterpreted row-wise operations; termination not proved; compiled back end absent; trusted: z3, vf/pyvc.py, vf/symrun.py",
   tech="contract-based deductive verification: AST-level VC generation with loop invariant and ghost state (pyvc) + symbolic execution (symrun), z3", ref="DESIGN.md section 6 C09"),
 "C06": dict(cat="other", engine="pyvc+smallscope",
   text="Loop invariant on the AST of the real search loop: every tabulated bond of the held configuration keeps its tabulated length (and all pairwise distances when single-atom moves are disabled), for every iteration count and random stream; proposal generators by row-level lemmas (translation identity, rotation about a point via Groebner, move_mol_atom by its C07 contract). Bounded part: real Alignment.align_molecules with the real optimiser (roles, frames, determinism, finiteness, caller objects untouched).",
   note="move_mol_atom contract proved structure-bounded only (C07); rotation_matrix contract from C17; bond table consistent with the initial configuration is a bounded check; bit-identical determinism is bounded",
   tech=TECH + ": AST VC generation with loop invariant over uninterpreted shape predicates + lemma axioms (z3), plus " + BND, ref="DESIGN.md section 6 C06"),
 "C08": dict(cat="other", engine="symrun+smallscope",
   text="The real Chi2Calculator (built on one mobile configuration, evaluated on another) runs on symbolic coordinates for every shape up to 3x2 / 2x3 and every restraint list of length <= 2; every path (choice of nearest atoms) is enumerated; value == the reference definition written from the statement as a z3 term, non-negative, independent of the construction configuration, inputs unmodified. Structure-bounded. Bounded part: float inputs up to 40x25, all three code paths, metamorphic clauses.",
   note="cdist by contract; ties excluded; A1, A2; arbitrary shapes not proved",
   tech=TECH + ": symbolic execution of the real class per shape, path enumeration, z3; plus " + BND, ref="DESIGN.md section 6 C08"),
 "C10": dict(cat="other", engine="pyvc+smallscope",
   text="remove_hydrogens: loop invariants with ghost counting functions on the AST of the real function, molecules and restraint lists of arbitrary length (z3 arrays + quantifiers): positions of non-hydrogen atoms in order, kept restraints in order designating the same two atoms. _split_list: contiguous non-empty covering parts for every list length and every number of parts 1..40. guess_protein_restrains (any number of residues of any sizes, guess_residue_restrains by contract): pairs only join residues at the same sequence position, indices in range, every atom has a partner, equal residue counts required. Bounded part: role swap / hydrogen filtering routed to the optimiser entry point, guessers exhaustive 1..40 x 1..40, Manager option routing.",
   note="element test abstracted as a pure predicate; numpy.array keeps row order; routing through Alignment/Manager is bounded only",
   tech=TECH + ": AST VC generation with quantified loop invariants over arrays (z3) + " + BND, ref="DESIGN.md section 6 C10"),
 "C11": dict(cat="other", engine="pyvc+smallscope",
   text="Deductive core: System._molecules_ordered_all_gen verified on its AST for block lists of any length (every yielded molecule spans its species' residue count, molecules of a block abut). Bounded: contracts on System.__init__/add_molecule_top/__iter__/__getitem__/__len__/composition from the statement, evaluated on the real classes for every molecule sequence up to the bound over the species alphabets (incl. restarted residue numbers), every topology loading order and read-then-load histories; oracle = the generator's own record list.",
   note="the recognition itself (run matching over consumed numpy arrays) is bounded only (sequences <= 4 quick / <= 6 thorough, all loading orders)",
   tech=TECH + " of the block generator (pyvc) + " + BND, ref="DESIGN.md section 6 C11"),
 "C12": dict(cat="other", engine="pyvc+smallscope",
   text="Deductive core (pyvc): SystemGro._parse_gro for files of any number of records splits them into residues that tile the file and start exactly at changes of residue number or name (loop invariant; Residue() by contract); SystemGro._add_residue_init keeps the class invariant of the run-length structure for any history (templates, (name,size) keys, flat run list, ghost prefix counts: residue q of run r has the size of the run's template); for any run-length list the offset generator behind iteration/indexing/slicing yields residues that tile the atom records from 0 (loop invariants over the yielded list); GroFile.seek_atom positions the cursor at first_atom_offset + index*line_size, records the index, raises beyond the last atom. Bounded: contracts on SystemGro iteration / len / n_atoms / box / title and random access as a single-step obligation from every forced cursor position and after every partial iteration, on generated files (all residue-kind sequences up to the bound, four numbering schemes, velocities on/off) against an independent parse.",
   note="bounded scope (kind sequences <= 4 quick / <= 5 thorough; seeded long files); history length covered by the single-step-from-any-cursor reduction (state scope bounded); assumed: Residue.__eq__ implies equal name and size; record field parsing bounded only",
   tech=TECH + " of the residue segmentation, the run-length bookkeeping and the offset arithmetic (pyvc: loop invariants, class invariant with ghost state, z3) + " + BND, ref="DESIGN.md section 6 C12"),
 "C13": dict(cat="other", engine="pyvc+symrun+smallscope",
   text="Five-digit wrap: the wrap expressions are extracted from the AST of the real parse_atomlist and proved over all integers (n <= 99999 unchanged; always <= 5 digits). Record layout: the real writer/reader functions run on symbolic numbers with marker strings: every format (d+5,d), d=1..6, velocities on/off, name lengths: right fields in the right columns, line length 20+3w(1+vel), determine_format inverts the writer. Writer layout invariant (pyvc, any number of records): _setup_write_file / writeline / _write_closing_info against each other's contracts: cursor = file length = first_atom_offset + k*line_size, the deferred count overwrites exactly its placeholder, the box line follows the last record, a declared count different from the records written raises. Bounded part: real GroFile write/read on real files (titles, boxes, count modes, boundary values).",
   note="str.format / int / float by contract on marker strings (A3); one representative name per length (A6); writer layout: strings by length, offsets are character counts; file contents bounded only",
   tech=TECH + ": AST-extracted integer VCs (z3) + symbolic execution with token strings + " + BND, ref="DESIGN.md section 6 C13"),
 "C14": dict(cat="other", engine="pyvc+smallscope",
   text="Deductive core (pyvc, files of any length and content): the writer's layout invariant (shared with C13; supporting, soft) and a corollary: a writer that declared n records and stops after k <= n writeline calls leaves a file the reader refuses; GroFile._load_box_matrix and _load_and_verify return normally only if the file extends past first_atom_offset + declared_count*line_size (where the box line must start), with the callees by contract (try/except and raising callees modelled); corollary (z3): every prefix of a complete file that ends before its box line is refused. Bounded: reader contract (accepted prefix returns exactly the complete file's records) on every byte prefix of generated and shipped files; writer contract (every flushed state before close() returns is rejected) at every low-level write/seek of real writer sessions.",
   note="deductive part: file = (length, cursor), offsets are character counts; what int()/determine_format/extract_lattice_gro do with the characters is a free choice; bounded scope 1..4 records quick / 1..8 thorough + shipped files; operation granularity = each low-level write/seek; OS-level atomicity not modelled",
   tech=TECH + " of the reader's acceptance logic (pyvc, try/except) + " + BND, ref="DESIGN.md section 6 C14"),
 "C15": dict(cat="other", engine="pyvc+smallscope+static",
   text="Deductive core (pyvc, any section length): _itp_top_atoms returns the atoms in file order and translates every bonded pair from file numbers to 0-based positions (ghost rank function, quantified array invariants); static obligation: are_connected and its callees are not recursive. Bounded contract checks of read_topology / MoleculeTop / are_connected / copy on every labelled graph on <= 4 atoms x every split of edges over bonds/constraints/pairs x decoration variants, large chains/stars/trees/forests (1000-3000 atoms) and the 16 shipped topologies against an independent parse.",
   note="bounded scope as stated; the recursion obligation is syntactic (call graph of components/__init__.py)",
   tech=TECH + " of the number->position translation (pyvc) + one static call-graph obligation + " + BND, ref="DESIGN.md section 6 C15"),
 "C16": dict(cat="other", engine="pyvc+smallscope",
   text="Deductive core (pyvc, files of any number of lines): ItpFile.__init__ stores every non-header line exactly once, in the section named by the last header before it, at the position given by the number of earlier lines of that section name (so repeated section names lose nothing), sections ordered by first appearance (quantified array invariants over a ghost counting function, vacuity guarded by an explicit witness); ItpSection.append keeps every line; ItpSection.__str__ = a header line the reader's own expressions recognise + str of every kept line in order; ItpFile.write = header lines verbatim then each section once in dictionary order. Bounded: round-trip contracts on ItpLine (parse_itp_line + line) for every string up to length 6/7 over a small alphabet and on ItpFile read-write-read for every file of <= 4 (quick) / <= 5-6 lines over ten line kinds incl. repeated section headers and empty/multiple trailing comments, plus the 16 shipped topologies; oracle = an independent reference reading of the text.",
   note="deductive part: lines are abstract (IsHdr(i), Sec(i) uninterpreted; no section literally named 'header'); the character-level content of a line (regular expressions, split/join chains) is bounded only",
   tech=TECH + " of the section bookkeeping (pyvc, quantified invariants, z3 E-matching) + " + BND, ref="DESIGN.md section 6 C16"),
 "C17": dict(cat="proof", engine="symrun",
   text="Every postcondition clause of rotation_matrix and calcule_base taken from the property statement is discharged for all real inputs on every path of the real function (loop-free, fully symbolic => complete); the bounded float twin of the same clauses is reported separately and not counted as proved.",
   note="A1 float64 as exact reals; A2 numpy object-dtype transparency (concolically cross-checked); A4 trig axioms; trusted: z3, sympy, CPython/numpy, vf/symrun.py",
   tech=TECH + ": symbolic execution of the real functions, per-path VCs discharged by z3 / Groebner ideal membership", ref="DESIGN.md section 6 C17"),
 "C18": dict(cat="other", engine="symrun+smallscope",
   text="Geometry: the real move/move_to/rotate of Residue and multi-residue Molecule on symbolic coordinates, displacement, target and R in SO(3): exact translation, centre at the requested point, all pairwise distances (incl. across residues) and the centre preserved under rotation (certificate over the SO(3) norm lemma). Layout-bounded. Bounded part: separation invariant and frames as single-step obligations over all copy-like operations and mutators, histories up to length 3, live views.",
   note="A1, A2; isolation/aliasing clauses are bounded only (Python object graph)",
   tech=TECH + ": symbolic execution of the real methods per layout (z3, Groebner, certificates) + " + BND, ref="DESIGN.md section 6 C18"),
 "C19": dict(cat="proof", engine="symrun",
   text="Residue.distance_to runs on fully symbolic coordinates and boxes (one path). Orthorhombic boxes: result^2 equals sum (d_i - L_i k_i)^2 for the code's integers k and is <= the same sum for every integer vector n (free integer symbols: all images), hence <= the direct distance. General non-singular boxes: symmetry, invariance under symbolic integer lattice shifts of either argument, inverse-flag equivalence. Every clause is discharged by scripted z3 / Groebner / explicit-certificate steps; the bounded float twin is separate.",
   note="A1 float64 as reals; A2; A3 contract of numpy.linalg.inv (two-sided inverse, functional) and numpy.round (nearest integer); ties excluded as in the statement; trusted: z3, sympy, vf/symrun.py",
   tech=TECH + ": symbolic execution of the real method with contract stubs for numpy.linalg.inv / numpy.round, scripted SMT + ideal-membership proofs", ref="DESIGN.md section 6 C19"),
 "C20": dict(cat="other", engine="pyvc+smallscope",
   text="Deductive core (pyvc, any number of explicit and discovered species): main() calls auto_map exactly once with the input coordinates, the given scale and the requested output path, and with the list explicit triples (unchanged, in order) + [start topology, end coordinates, end topology] of every discovered species that is complete and not excluded, in dictionary order (argparse/print as no-ops, sort_molecules by contract; ghost counting function, quantified array invariant); classify_files exact for any list of files (informational). Bounded: sort_molecules postcondition for every iteration order of both candidate sets (classify_files stubbed by adversarially ordered set objects = hash-seed independence stated in the callee's contract), every explicit subset, generated and shipped directories; main/auto_map protocol contract with Manager replaced by a recorder over 870 argv vectors; 8 end-to-end byte comparisons with the library workflow under the same seed.",
   note="deductive part: which files the discovery assigns (sort_molecules: an OSError protocol over real topologies) and the equality of outputs are bounded only; interpreter hash seeds replaced by adversarial iteration orders (+ a small real PYTHONHASHSEED sweep)",
   tech=TECH + " of main()'s species-list assembly (pyvc) + " + BND, ref="DESIGN.md section 6 C20"),
}
NOT_YET = "check not built yet in this round (work in progress; see DESIGN.md section 6 for the plan)"
NA = {}
def main():
    props = [json.loads(l)["id"] for l in open(os.path.join(HERE, "properties.jsonl"))]
    checks = []
    for pid in props:
        if pid not in CHECKS:
            continue
        c = CHECKS[pid]
        checks.append({
            "property_id": pid,
            "quick_cmd": f"./check {pid} --tier quick",
            "thorough_cmd": f"./check {pid} --tier thorough",
            "evidence_file": f"evidence/{pid}.json",
            "replay_cmd_template": f"./check {pid} --replay {{path}}",
            "engine": c["engine"],
            "level_claimed": {"category": c["cat"], "text": c["text"], "design_ref": c["ref"]},
            "level_note": c["note"],
            "technique": c["tech"],
        })
    engines = [
      {"name": "symrun", "path": "vf/symrun.py", "kind_free_text": "executes the real function objects of /repo on symbolic reals (z3 proxies in numpy object arrays), enumerates every path, emits path-condition => postcondition VCs; callees replaced by their contracts"},
      {"name": "pyvc", "path": "vf/pyvc.py", "kind_free_text": "VC generation from the AST of the real function (re-parsed every run) with sidecar loop invariants and call-site assertions"},
      {"name": "smallscope", "path": "vf/smallscope.py", "kind_free_text": "bounded stand-in: the same contracts evaluated at run time on the real objects over exhaustively enumerated finite scopes (labelled bounded, never counted as proved)"},
      {"name": "backends", "path": "vf/backends.py", "kind_free_text": "z3 5.1 (API), sympy Groebner ideal membership (gb), cvc5 1.0.3 CLI, z3 4.8.12 CLI"},
    ]
    for e in engines:
        e["serves_properties"] = sorted(p for p, c in CHECKS.items() if e["name"] in c["engine"] or e["name"] == "backends")
    engines = [e for e in engines if os.path.exists(os.path.join(HERE, e["path"]))]
    man = {
      "version": 1,
      "setup_cmd": "bash setup.sh",
      "hooks": {
        "guard": "GADDLEMAPS_VERIF",
        "enable": "no source hooks: the checker process binds contract stubs and wrappers into module namespaces of the imported /repo package; GADDLEMAPS_VERIF=1 is exported by ./check but read by nothing in /repo",
        "baseline_off_cmd": "cd /repo && /venv/bin/python -m pytest -ra -q -p no:cacheprovider --timeout=900 --continue-on-collection-errors",
        "source_commits": [],
        "add_only": True,
      },
      "engines": engines,
      "checks": checks,
      "not_applicable": [{"property_id": p, "reason": NA.get(p, NOT_YET)} for p in props if p not in CHECKS],
      "notes": "One contract layer (contracts/*.py, sidecar; /repo untouched), three engines. Deductive obligations and bounded contract checks are counted separately in every evidence file. Known findings / fixed defects: known_findings.json.",
    }
    json.dump(man, open(os.path.join(HERE, "MANIFEST.json"), "w"), indent=1)
    print("wrote MANIFEST.json:", len(checks), "checks,", len(man["not_applicable"]), "not applicable")
main()
