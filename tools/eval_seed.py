#!/usr/bin/env python3
"""Confirms a seeded change and runs the property's check against it (self-test tooling, not a registered check).

usage: tools/eval_seed.py <dir with patch.diff demo.py meta.json> <PROP> [--keep-as NAME] [--tier quick|thorough] [--skip-tests]

Steps (all in a scratch worktree of /repo under /tmp, removed afterwards):
  1. demo.py exits 0 on the clean tree;  2. patch applies;  3. demo.py exits 1 on the patched tree;
  4. the pinned test suite still passes every stable_pass test of /root/.vp/BASELINE.json;
  5. ./check <PROP> with VERIF_REPO=<patched tree>: caught iff exit 1 with a VIOLATION line.
With --keep-as the change is stored as /verif/seeded/<NAME>/ (patch.diff, demo.py, meta.json incl. what was run).
"""
import json
import os
import shutil
import subprocess
import sys
import tempfile
import time
import xml.etree.ElementTree as ET


def sh(cmd, **kw):
    return subprocess.run(cmd, capture_output=True, text=True, **kw)


def main():
    a = sys.argv[1:]
    src, prop = a[0], a[1]
    keep = a[a.index("--keep-as") + 1] if "--keep-as" in a else None
    tier = a[a.index("--tier") + 1] if "--tier" in a else "quick"
    skip_tests = "--skip-tests" in a
    wt = tempfile.mkdtemp(prefix="eval_seed_")
    os.rmdir(wt)
    res = {"property": prop, "source": src}
    subprocess.check_call(["git", "-C", "/repo", "worktree", "add", "-q", "--detach", wt, "HEAD"])
    try:
        env = dict(os.environ, PYTHONPATH=wt, PYTHONDONTWRITEBYTECODE="1")
        demo = os.path.join(src, "demo.py")
        r0 = sh(["/venv/bin/python", demo], env=env, cwd=wt, timeout=900)
        res["demo_clean_rc"] = r0.returncode
        ap = sh(["git", "-C", wt, "apply", os.path.abspath(os.path.join(src, "patch.diff"))])
        res["patch_applies"] = ap.returncode == 0
        if ap.returncode != 0:
            res["error"] = ap.stderr[-400:]
            print(json.dumps(res, indent=1))
            return 2
        r1 = sh(["/venv/bin/python", demo], env=env, cwd=wt, timeout=900)
        res["demo_patched_rc"] = r1.returncode
        res["demo_patched_out"] = (r1.stdout + r1.stderr)[-600:]
        if not skip_tests:
            junit = os.path.join(wt, "junit_eval.xml")
            t0 = time.time()
            sh(["/venv/bin/python", "-m", "pytest", "-q", "-p", "no:cacheprovider", "--timeout=900", "--continue-on-collection-errors",
                f"--junitxml={junit}"], env=env, cwd=wt, timeout=3000)
            base = json.load(open("/root/.vp/BASELINE.json"))
            passed = set()
            try:
                for tc in ET.parse(junit).iter("testcase"):
                    if not any(ch.tag in ("failure", "error", "skipped") for ch in tc):
                        passed.add(f"{tc.get('classname')}::{tc.get('name')}")
            except Exception as e:
                res["tests_error"] = str(e)
            missing = [x for x in base["stable_pass"] if x not in passed]
            res["tests_missing"] = missing
            res["tests_secs"] = round(time.time() - t0)
        cenv = dict(os.environ, VERIF_REPO=wt)
        t0 = time.time()
        c = sh(["./check", prop, "--tier", tier], cwd="/verif", env=cenv, timeout=7200)
        res["check_rc"] = c.returncode
        res["check_secs"] = round(time.time() - t0)
        lines = c.stdout.splitlines()
        res["check_summary"] = [l for l in lines if l.startswith(prop + " [")][-1:]
        res["violations"] = [l for l in lines if l.startswith("VIOLATION")][:4]
        res["violation_obligations"] = [l.strip()[:260] for l in lines if l.startswith("  obligation=")][:4]
        res["undecided"] = [l[:200] for l in lines if l.startswith("UNDECIDED")][:4]
        res["caught"] = c.returncode == 1 and bool(res["violations"])
        res["valid_seed"] = (res["demo_clean_rc"] == 0 and res["demo_patched_rc"] != 0 and (skip_tests or not res.get("tests_missing")))
        if keep:
            dst = os.path.join("/verif/seeded", keep)
            os.makedirs(dst, exist_ok=True)
            shutil.copy(os.path.join(src, "patch.diff"), dst)
            shutil.copy(demo, dst)
            meta = {}
            try:
                meta = json.load(open(os.path.join(src, "meta.json")))
            except Exception:
                pass
            meta.update({"property": prop, "confirmed": {k: res[k] for k in ("demo_clean_rc", "demo_patched_rc", "tests_missing") if k in res},
                         "ran": ["demo.py on clean and patched scratch worktree (PYTHONPATH=<worktree>)",
                                 "pinned pytest suite on the patched worktree, compared with BASELINE.json stable_pass",
                                 f"VERIF_REPO=<patched worktree> ./check {prop} --tier {tier}"],
                         "check_result": {"tier": tier, "caught": res["caught"], "rc": res["check_rc"], "secs": res["check_secs"],
                                          "first_violations": res["violation_obligations"][:3]}})
            json.dump(meta, open(os.path.join(dst, "meta.json"), "w"), indent=1)
        print(json.dumps(res, indent=1))
        return 0
    finally:
        subprocess.call(["git", "-C", "/repo", "worktree", "remove", "--force", wt])
        shutil.rmtree(wt, ignore_errors=True)


if __name__ == "__main__":
    sys.exit(main())
