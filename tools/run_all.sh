#!/bin/bash
# runs every registered quick (or thorough) check sequentially and prints one summary line each
cd "$(dirname "$0")/.."
TIER=${1:-quick}
for p in C01 C02 C03 C04 C05 C06 C07 C08 C09 C10 C11 C12 C13 C14 C15 C16 C17 C18 C19 C20; do
  s=$(date +%s); out=$(./check $p --tier $TIER 2>&1); rc=$?; e=$(date +%s)
  echo "rc=$rc $((e-s))s $(echo "$out" | grep "^$p \[" | tail -1)"
  echo "$out" | grep -E "^(VIOLATION|UNDECIDED|GUARD-FAILED|KNOWN)" | head -3
done
