"""Runner: loads a contract module, runs its tasks in the pool, replays
refutations on the real code, applies the known-findings file, writes evidence
and prints the verdict lines.

Exit status: 0 held (possibly with UNDECIDED / KNOWN-FINDING lines),
1 at least one VIOLATION not listed as a known finding.
"""
from __future__ import annotations

import argparse
import hashlib
import importlib
import json
import os
import re
import sys
import time
import traceback

ROOT = os.path.dirname(os.path.dirname(os.path.abspath(__file__)))
REPO = os.environ.get("VERIF_REPO", "/repo")

PROPS = {
    "C01": "contracts.c01_c04_exchange_map", "C02": "contracts.c01_c04_exchange_map",
    "C03": "contracts.c01_c04_exchange_map", "C04": "contracts.c01_c04_exchange_map",
    "C05": "contracts.c05_extrapolate", "C06": "contracts.c06_alignment",
    "C07": "contracts.c07_move_atom", "C08": "contracts.c08_chi2",
    "C09": "contracts.c09_montecarlo", "C10": "contracts.c10_restraints",
    "C11": "contracts.c11_system", "C12": "contracts.c12_systemgro",
    "C13": "contracts.c13_gro_roundtrip", "C14": "contracts.c14_truncation",
    "C15": "contracts.c15_topology", "C16": "contracts.c16_itp_roundtrip",
    "C17": "contracts.c17_rotation_frames", "C18": "contracts.c18_copies",
    "C19": "contracts.c19_periodic", "C20": "contracts.c20_cli",
}


for _kv in filter(None, os.environ.get("VERIF_PROPS_OVERRIDE", "").split(",")):
    _k, _v = _kv.split("=", 1)
    PROPS[_k.strip()] = _v.strip()


def _json_default(o):
    try:
        import numpy as np
        if isinstance(o, np.ndarray):
            return o.tolist()
        if isinstance(o, (np.integer,)):
            return int(o)
        if isinstance(o, (np.floating,)):
            return float(o)
        if isinstance(o, np.bool_):
            return bool(o)
    except Exception:
        pass
    if isinstance(o, (set, frozenset, tuple)):
        return list(o)
    return repr(o)


def dump(obj, path):
    os.makedirs(os.path.dirname(path), exist_ok=True)
    tmp = path + ".tmp"
    with open(tmp, "w") as f:
        json.dump(obj, f, indent=1, default=_json_default)
        f.write("\n")
    os.replace(tmp, path)


def load_known():
    p = os.path.join(ROOT, "known_findings.json")
    if not os.path.exists(p):
        return []
    with open(p) as f:
        return json.load(f).get("findings", [])


def known_match(entry, prop, ob):
    if entry.get("status") != "known" or entry.get("property") != prop:
        return False
    if not re.search(entry.get("obligation", "$^"), ob["id"]):
        return False
    sig = entry.get("input_signature")
    if sig is None:
        return True
    return sig == (ob.get("cex") or {}).get("signature")


def _replay_child(modname, prop, cex):
    mod = importlib.import_module(modname)
    return mod.replay(prop, cex)


def run_property(prop: str, tier: str, seed: int, only: str = None, jobs: int = 0, verbose=False) -> int:
    from . import pool
    t0 = time.time()
    sys.path.insert(0, ROOT)
    if REPO not in sys.path:
        sys.path.insert(0, REPO)
    os.environ.setdefault("GADDLEMAPS_VERIF", "1")
    modname = PROPS[prop]
    mod = importlib.import_module(modname)
    tasks = mod.tasks(prop, tier, seed)
    if only:
        tasks = [t for t in tasks if re.search(only, t[0])]
    obligations = []
    task_notes = []

    def prog(name, state):
        if verbose:
            print(f"  [{state}] {name}", flush=True)

    res = pool.run_tasks(tasks, jobs=jobs, progress=prog)
    for (name, state, payload, secs), t in zip(res, tasks):
        if state == "ok":
            for ob in payload:
                ob.setdefault("task", name)
                obligations.append(ob)
        else:
            # engine crash / kill: the task's obligations are undecided, never a violation
            obligations.append({"id": f"{prop}/{name}/task", "status": "undecided", "kind": "proof",
                                "engine": "runner", "backend": "-", "secs": secs,
                                "reason": f"task {state}: {str(payload)[:1500]}", "task": name})
    # ---- classify
    known = load_known()
    violations, knowns, undecided, guard_failed = [], [], [], []
    replay_dir = os.path.join(ROOT, "replays", prop)
    n_replayed = 0
    for ob in obligations:
        expect = ob.get("expect", "discharged")
        if ob.get("kind") == "guard":
            if ob["status"] != expect:
                guard_failed.append(ob)
            continue
        if ob["status"] == "undecided":
            undecided.append(ob)
        elif ob["status"] == "refuted":
            violations.append(ob)
    out_lines = []
    real_violations = []
    MAX_LINES = int(os.environ.get("VERIF_MAX_VIOLATION_LINES", "8"))
    # replay budget: at most MAX_REPLAYS counterexamples are replayed natively, spread round-robin over distinct
    # clause families (function/clause), so a change that breaks hundreds of structure instances is reported quickly
    MAX_REPLAYS = int(os.environ.get("VERIF_MAX_REPLAYS", "8"))

    def _fam(o):
        return "/".join(o["id"].split("/")[:3]).split("[")[0].split("#")[0]
    order, per_fam = [], {}
    for o in violations:
        per_fam.setdefault(_fam(o), []).append(o)
    while any(per_fam.values()):
        for f in list(per_fam):
            if per_fam[f]:
                order.append(per_fam[f].pop(0))
    violations = order
    for ob in violations:
        cex = ob.get("cex")
        rep = None
        cex_skip = False
        if n_replayed >= MAX_REPLAYS and cex is not None:
            rep = {"reproduced": False, "note": f"replay budget ({MAX_REPLAYS}) used up by earlier violations of this run; "
                                               f"run ./check {prop} --replay <this file> to replay this one"}
            cex_skip = True
        if cex is not None and hasattr(mod, "replay") and not cex_skip:
            r = pool.run_tasks([("replay", _replay_child, (modname, prop, cex), 300.0)], jobs=1)[0]
            if r[1] == "ok":
                rep = r[2]
                n_replayed += 1
            else:
                rep = {"reproduced": False, "note": f"replay {r[1]}: {str(r[2])[:800]}"}
        ob["replay"] = rep
        reproduced = bool(rep and rep.get("reproduced"))
        h = hashlib.sha1(ob["id"].encode()).hexdigest()[:10]
        safe = re.sub(r"[^A-Za-z0-9_.-]+", "_", ob["id"])[:120]
        path = os.path.join(replay_dir, f"{safe}.{h}.json")
        dump({"property": prop, "obligation": ob["id"], "engine": ob.get("engine"),
              "backend": ob.get("backend"), "verifier_output": ob.get("reason") or ob.get("model"),
              "model": ob.get("model"), "inputs": cex, "replay": rep, "reproduced": reproduced,
              "module": modname,
              "replay_cmd": f"cd {ROOT} && ./check {prop} --replay {path}"}, path)
        ob["replay_file"] = path
        if not reproduced and not cex_skip and re.search(r"/invariant\.(on-entry|preserved)(#\d+)?$", ob["id"]):
            # a loop invariant is a device of the proof, not a clause of the property: when it stops being inductive and no failing input
            # is found on the real code, the proof is broken and the property is UNDECIDED by this obligation (a restructured but equivalent
            # loop does this).  Clauses taken from the statement (ensures/raises/frame/safety) keep the 'no-failing-input-found' violation.
            ob["status"] = "undecided"
            ob["reason"] = ("loop invariant of the proof no longer holds and no failing input was found on the real code (proof broken, property undecided): "
                            + str(ob.get("reason") or "")[:300])
            undecided.append(ob)
            continue
        km = [e for e in known if known_match(e, prop, ob)]
        if km:
            knowns.append((ob, km[0]))
            continue
        real_violations.append(ob)
        suffix = "" if reproduced else " no-failing-input-found"
        if len(real_violations) <= MAX_LINES:
            out_lines.append(f"VIOLATION property={prop} replay={path}{suffix}")
            out_lines.append(f"  obligation={ob['id']} engine={ob.get('engine')} backend={ob.get('backend')}"
                             f" :: {str(ob.get('reason') or '')[:300]}")
    if len(real_violations) > MAX_LINES:
        out_lines.append(f"  ... and {len(real_violations) - MAX_LINES} more violated obligations (all listed in evidence/{prop}.json and under replays/{prop}/)")
    seen_known = set()
    for ob, e in knowns:
        key = e.get("what")
        if key in seen_known:
            continue
        seen_known.add(key)
        out_lines.append(f"KNOWN-FINDING: property={prop} {e.get('what')}")
    for ob in undecided[:40]:
        out_lines.append(f"UNDECIDED obligation={ob['id']} reason={str(ob.get('reason'))[:200]}")
    for ob in guard_failed[:20]:
        out_lines.append(f"GUARD-FAILED obligation={ob['id']} expected={ob.get('expect')} got={ob['status']}"
                         f" (machinery guard, not a property violation)")
    # ---- evidence
    wall = time.time() - t0
    ev = build_evidence(mod, prop, tier, seed, obligations, real_violations, knowns, undecided,
                        guard_failed, n_replayed, wall)
    # runs against a scratch copy of the repository (mutation self-tests: VERIF_REPO set) must not overwrite the
    # committed evidence, which describes /repo itself
    ev_dir = "evidence" if os.path.realpath(REPO) == os.path.realpath("/repo") else ".scratch_evidence"
    dump(ev, os.path.join(ROOT, ev_dir, f"{prop}.json"))
    c = ev["coverage"]
    print(f"{prop} [{tier}] obligations={c['obligations']} discharged={c['discharged']} "
          f"(deductive {c['deductive_obligations']}/{c['deductive_discharged']}, "
          f"bounded {c['bounded_obligations']}/{c['bounded_discharged']}) undecided={len(undecided)} "
          f"violations={len(real_violations)} known={len(knowns)} wall={wall:.1f}s", flush=True)
    for l in out_lines:
        print(l)
    sys.stdout.flush()
    if not obligations or c["obligations"] == 0:
        print(f"UNDECIDED obligation={prop}/* reason=zero obligations generated (vacuity guard)")
    return 1 if real_violations else 0


def build_evidence(mod, prop, tier, seed, obligations, violations, knowns, undecided,
                   guard_failed, n_replayed, wall):
    real = [o for o in obligations if o.get("kind") != "guard"]
    ded = [o for o in real if o.get("kind") == "proof"]
    bnd = [o for o in real if o.get("kind") == "bounded"]
    guards = [o for o in obligations if o.get("kind") == "guard"]
    by_engine, by_backend = {}, {}
    for o in real:
        if o["status"] == "discharged":
            by_engine[o.get("engine", "?")] = by_engine.get(o.get("engine", "?"), 0) + 1
            by_backend[o.get("backend", "?")] = by_backend.get(o.get("backend", "?"), 0) + 1
    evals = sum(int(o.get("evaluations", 1)) for o in real)
    nontrivial = sum(int(o.get("nontrivial", 1 if o.get("kind") == "proof" else o.get("evaluations", 1)))
                     for o in real)
    samples = []
    seen_fam = set()
    for o in real:
        fam = "/".join(o["id"].split("/")[:3])
        if fam in seen_fam:
            continue
        seen_fam.add(fam)
        s = {"obligation": o["id"], "kind": o.get("kind"), "engine": o.get("engine"),
             "status": o["status"], "backend": o.get("backend"), "secs": round(o.get("secs", 0.0), 3)}
        if o.get("sample") is not None:
            s["case"] = o["sample"]
        samples.append(s)
        if len(samples) >= 40:
            break
    info = mod.info(prop) if hasattr(mod, "info") else {}
    all_ded_ok = bool(ded) and all(o["status"] == "discharged" for o in ded)
    claimed = info.get("level", "other")
    level = claimed
    if claimed == "proof" and not (all_ded_ok and not guard_failed):
        level = "other"
    n_ok = sum(1 for o in real if o["status"] == "discharged")
    explanation = info.get("explanation", "")
    explanation += (f" This run: {len(ded)} deductive obligations ({sum(1 for o in ded if o['status']=='discharged')} discharged), "
                    f"{len(bnd)} bounded contract checks ({sum(1 for o in bnd if o['status']=='discharged')} passed, "
                    f"{sum(int(o.get('evaluations', 1)) for o in bnd)} contract evaluations), "
                    f"{len(guards)} vacuity/must-fail guards ({len(guard_failed)} failed), "
                    f"{len(undecided)} undecided.")
    cov = {
        "obligations": len(real),
        "discharged": n_ok,
        "deductive_obligations": len(ded),
        "deductive_discharged": sum(1 for o in ded if o["status"] == "discharged"),
        "bounded_obligations": len(bnd),
        "bounded_discharged": sum(1 for o in bnd if o["status"] == "discharged"),
        "guards": len(guards), "guards_failed": len(guard_failed),
        "undecided": [o["id"] for o in undecided][:50],
        "by_engine": by_engine, "by_backend": by_backend,
        "solver_secs": round(sum(o.get("secs", 0.0) for o in real), 2),
        "evaluations": max(1, evals),
        "distinct_nontrivial": max(2, nontrivial) if real else 0,
        "rule": info.get("rule", "each obligation is a distinct (function, clause, path/structure) triple; "
                                 "bounded obligations count one evaluation per enumerated case"),
        "samples": samples or [{"note": "no obligations"}],
        "traces_validated_against_impl": sum(int(o.get("concolic", 0)) for o in obligations),
        "replayed_counterexamples": n_replayed,
        "checker_cmd": f"cd /verif && ./check {prop} --tier {tier}",
        "trusted_base": info.get("trusted_base", []),
        "functions_under_contract": info.get("functions", []),
        "stubs_installed": info.get("stubs", []),
        "exhaustive": bool(info.get("exhaustive", False)),
        "explanation": explanation.strip(),
        "known_findings_hit": [e.get("what") for _, e in knowns],
    }
    return {
        "property_id": prop, "tier": tier if tier in ("quick", "thorough") else "quick",
        "seed": int(seed), "level": level, "coverage": cov,
        "assumptions": info.get("assumptions", []),
        "wall_s": round(wall, 2), "violations": len(violations),
    }


def do_replay(prop, path):
    sys.path.insert(0, ROOT)
    if REPO not in sys.path:
        sys.path.insert(0, REPO)
    with open(path) as f:
        rec = json.load(f)
    mod = importlib.import_module(rec.get("module") or PROPS[prop])
    if rec.get("inputs") is None:
        print(f"replay: obligation {rec['obligation']} has no concrete input; verifier output follows")
        print(json.dumps(rec.get("verifier_output"), indent=1)[:4000])
        return 1
    rep = mod.replay(prop, rec["inputs"])
    print(json.dumps(rep, indent=1, default=_json_default)[:6000])
    return 1 if rep.get("reproduced") else 0


def main(argv=None):
    ap = argparse.ArgumentParser()
    ap.add_argument("prop")
    ap.add_argument("--tier", default=os.environ.get("VERIF_TIER", "quick"))
    ap.add_argument("--seed", type=int, default=int(os.environ.get("VERIF_SEED", "0") or 0))
    ap.add_argument("--replay")
    ap.add_argument("--only")
    ap.add_argument("--jobs", type=int, default=0)
    ap.add_argument("-v", "--verbose", action="store_true")
    a = ap.parse_args(argv)
    if a.prop not in PROPS:
        print(f"unknown property {a.prop}")
        return 3
    if a.replay:
        return do_replay(a.prop, a.replay)
    try:
        return run_property(a.prop, a.tier, a.seed, a.only, a.jobs, a.verbose)
    except Exception:
        # checker crash inside a registered command: log, undecided, never an alarm
        traceback.print_exc()
        print(f"UNDECIDED obligation={a.prop}/* reason=checker crashed (see traceback)")
        return 0


if __name__ == "__main__":
    sys.exit(main())
