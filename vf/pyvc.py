"""pyvc -- verification-condition generation over the AST of the *real* function.

Every run re-reads the source file of the function under contract, locates its
``FunctionDef`` and symbolically executes the statement list:

  * expressions are evaluated by applying Python's own operators to symbolic
    proxies (vf.symrun.SymReal / SymBool and the proxies a sidecar defines), so
    the value semantics is not re-implemented here;
  * ``if`` on a symbolic condition splits the path (infeasible sides pruned by
    the solver);
  * ``while`` / ``for`` need a sidecar ``LoopSpec`` (inductive invariant), keyed by
    the loop's ordinal in the function: assert on entry, havoc the variables the
    body assigns (+ declared ghosts), assume invariant and guard, execute the
    body once, assert the invariant (and the step postcondition) at every
    normal/continue end; exit paths assume invariant and not guard;
  * calls are resolved through the environment: a name bound (by the function
    itself, e.g. ``_accept = accept_metropolis``, or by the sidecar's globals
    model) to a *contract stub* is called with the evaluated arguments; the stub
    asserts its precondition (an obligation), returns a fresh result and
    assumes its postcondition.  Unknown callables make the obligation
    *undecided* (PyvcUnsupported), never silently skipped.

What the extraction drops: docstrings, annotations, ``print`` and
``sys.stdout.write/flush`` (modelled as no-ops).  Nothing else.
"""
from __future__ import annotations

import ast
import copy
import inspect
import operator
import os
import textwrap
from typing import Any, Callable, Dict, List, Optional

import z3

from . import symrun as S

REPO = os.environ.get("VERIF_REPO", "/repo")


class PyvcUnsupported(Exception):
    """construct outside the subset -> obligations of this function are undecided"""


NORMAL, CONTINUE, BREAK, RETURN, RAISE = "normal", "continue", "break", "return", "raise"


class St:
    """one symbolic state: variable environment, ghost variables, path condition"""

    def __init__(self):
        self.env: Dict[str, Any] = {}
        self.ghost: Dict[str, Any] = {}
        self.pc: List[Any] = []
        self.log: List[tuple] = []       # events recorded by stubs on this path
        self.sig = NORMAL
        self.val = None

    def fork(self):
        s = St()
        s.env = {k: _cp(v) for k, v in self.env.items()}
        s.ghost = {k: _cp(v) for k, v in self.ghost.items()}
        s.pc = list(self.pc)
        s.log = list(self.log)
        s.sig, s.val = self.sig, self.val
        return s

    def assume(self, c):
        self.pc.append(c)


def _cp(v):
    if hasattr(v, "pyvc_copy"):
        return v.pyvc_copy()
    if isinstance(v, list):
        return [_cp(x) for x in v]
    if isinstance(v, dict):
        return {k: _cp(x) for k, x in v.items()}
    return v


def local(st: "St", name: str, kind=None):
    """value of a local a sidecar invariant talks about.  Absent from the function (renamed or removed by a refactoring) or bound to
    something the sidecar has no model for -> PyvcUnsupported (the function's obligations become UNDECIDED, never a violation);
    assigned by the function but not bound on this path -> UNBOUND (the caller states False: reading it is a run-time error)."""
    if name not in st.env:
        raise PyvcUnsupported(f"the sidecar's invariant names the local `{name}`, which this version of the function does not assign")
    v = st.env[name]
    if v is UNBOUND:
        return UNBOUND
    if kind is not None and not isinstance(v, kind):
        raise PyvcUnsupported(f"local `{name}` holds a {type(v).__name__} where the sidecar models a {getattr(kind, '__name__', kind)}")
    return v


class LoopSpec:
    def __init__(self, invariant: Callable[[St], Any], ghosts=(), step_post: Optional[Callable] = None,
                 havoc_like: Optional[Dict[str, Callable[[str], Any]]] = None, name=None,
                 on_iteration_start: Optional[Callable] = None):
        self.invariant = invariant
        self.ghosts = tuple(ghosts)
        self.step_post = step_post             # (st_at_body_start, st_at_body_end) -> [(name, z3 bool)]
        self.havoc_like = havoc_like or {}
        self.name = name
        self.on_iteration_start = on_iteration_start


class OpaqueStr:
    """text built by formatting (error messages, progress output): its value is not modelled.  Deliberately NOT a str, so that it can
    never be mistaken for real data (its length, its content) by a sidecar model; further string operations on it stay opaque."""

    def __add__(self, o):
        return OpaqueStr()

    __radd__ = __mod__ = __add__

    def __getattr__(self, name):
        if name.startswith("pyvc_") or name.startswith("__"):
            raise AttributeError(name)

        def method(*a, **k):
            return OpaqueStr()
        method.pyvc_pure = True
        return method

    def pyvc_copy(self):
        return self

    def __repr__(self):
        return "<formatted text>"


class MappedSeq:
    """value of a generator expression / list comprehension over a symbolic sequence"""

    def __init__(self, length, item):
        self.length, self.item = length, item

    def pyvc_iter(self):
        return self.length, self.item

    def pyvc_len(self):
        return S.SymReal(self.length)

    def pyvc_copy(self):
        return self


class Obl:
    __slots__ = ("name", "hyps", "goal", "meta")

    def __init__(self, name, hyps, goal, meta=None):
        self.name, self.hyps, self.goal, self.meta = name, list(hyps), goal, meta or {}


def load_function(relpath: str, qualname: str):
    """(FunctionDef node, source text, file path) of the real function, re-read now"""
    path = os.path.join(REPO, relpath)
    with open(path) as f:
        src = f.read()
    tree = ast.parse(src)
    parts = qualname.split(".")
    node: Any = tree
    for p in parts:
        found = None
        for n in node.body:
            if isinstance(n, (ast.FunctionDef, ast.ClassDef)) and n.name == p:
                found = n
        if found is None:
            raise PyvcUnsupported(f"{qualname} not found in {relpath}")
        node = found
    return node, src, path


def assigned_names(stmts) -> List[str]:
    out = []

    def tgt(t):
        if isinstance(t, ast.Subscript) and isinstance(t.value, ast.Name):
            if t.value.id not in out:
                out.append(t.value.id)
        if isinstance(t, ast.Name):
            if t.id not in out:
                out.append(t.id)
        elif isinstance(t, (ast.Tuple, ast.List)):
            for e in t.elts:
                tgt(e)
        elif isinstance(t, ast.Starred):
            tgt(t.value)

    class V(ast.NodeVisitor):
        def visit_Assign(self, n):
            for t in n.targets:
                tgt(t)
            self.generic_visit(n)

        def visit_AugAssign(self, n):
            tgt(n.target)
            self.generic_visit(n)

        def visit_AnnAssign(self, n):
            tgt(n.target)
            self.generic_visit(n)

        def visit_For(self, n):
            tgt(n.target)
            self.generic_visit(n)

        def visit_FunctionDef(self, n):       # nested defs have their own scope
            if n.name not in out:
                out.append(n.name)

        def visit_Yield(self, n):
            if "__yielded__" not in out:
                out.append("__yielded__")
            self.generic_visit(n)

        def visit_Call(self, n):
            # in-place mutation of a local container: xs.append(...), d.update(...)
            f = n.func
            if isinstance(f, ast.Attribute) and isinstance(f.value, ast.Name) and f.attr in _MUTATORS and f.value.id not in out:
                out.append(f.value.id)
            self.generic_visit(n)

        def visit_Lambda(self, n):
            pass

    for s in stmts:
        V().visit(s)
    return out


def mutated_roots(stmts) -> List[str]:
    """root names of in-place mutations through attribute / subscript chains:  self[k].append(x), self._lines.append(x), a.b[c] = v"""
    out = []

    def root(n):
        while isinstance(n, (ast.Attribute, ast.Subscript)):
            n = n.value
        return n.id if isinstance(n, ast.Name) else None

    for s in stmts:
        for n in ast.walk(s):
            r = None
            if isinstance(n, ast.Call) and isinstance(n.func, ast.Attribute) and n.func.attr in _MUTATORS and not isinstance(n.func.value, ast.Name):
                r = root(n.func.value)
            elif isinstance(n, (ast.Assign, ast.AugAssign, ast.AnnAssign)):
                for t in (n.targets if isinstance(n, ast.Assign) else [n.target]):
                    if isinstance(t, (ast.Attribute, ast.Subscript)):
                        r2 = root(t)
                        if r2 and r2 not in out:
                            out.append(r2)
            if r and r not in out:
                out.append(r)
    return out


_MUTATORS = {"append", "extend", "add", "update", "remove", "pop", "insert", "clear", "sort", "reverse", "setdefault"}

_BIN = {ast.Add: operator.add, ast.Sub: operator.sub, ast.Mult: operator.mul, ast.Div: operator.truediv,
        ast.FloorDiv: operator.floordiv, ast.Mod: operator.mod, ast.Pow: operator.pow, ast.MatMult: operator.matmul}
_CMP = {ast.Lt: operator.lt, ast.LtE: operator.le, ast.Gt: operator.gt, ast.GtE: operator.ge,
        ast.Eq: operator.eq, ast.NotEq: operator.ne}


class Noop:
    """value of print / sys.stdout.write: calling it does nothing"""

    def __call__(self, *a, **k):
        return None

    def __getattr__(self, n):
        return Noop()


class Interp:
    def __init__(self, relpath: str, qualname: str, globals_model: Dict[str, Any], loops: Dict[int, LoopSpec],
                 tag: str, feas_timeout_ms=1500, builtins_model: Optional[Dict[str, Any]] = None):
        self.fn, self.src, self.path = load_function(relpath, qualname)
        self.globals = dict(globals_model)
        self.loops = loops
        self.tag = tag
        self.obls: List[Obl] = []
        self.containers: Dict[str, Callable] = {}
        self.n_loops = 0
        self.n_fresh = 0
        self.feas_timeout_ms = feas_timeout_ms
        self.paths_pruned = 0
        self._raise_frames: List[List[St]] = [[]]
        self._obl_names: Dict[str, int] = {}
        self.str_hook: Optional[Callable] = None      # (receiver str, method name, args, kwargs) -> token; default: "<str>"
        self.builtins = {"print": Noop(), "len": sym_len, "abs": abs, "min": min, "max": max, "range": range,
                         "isinstance": isinstance, "tuple": tuple, "list": list, "int": int, "float": float,
                         "True": True, "False": False, "None": None, "set": set, "dict": dict, "sum": sum,
                         "enumerate": enumerate, "zip": zip, "sorted": sorted, "hasattr": hasattr, "str": str}
        if builtins_model:
            self.builtins.update(builtins_model)
        self._loop_ids: Dict[int, int] = {}
        k = 0
        for n in ast.walk(self.fn):
            if isinstance(n, (ast.While, ast.For)):
                pass
        # loop ordinals in source order
        for n in sorted((n for n in ast.walk(self.fn) if isinstance(n, (ast.While, ast.For))),
                        key=lambda n: (n.lineno, n.col_offset)):
            self._loop_ids[id(n)] = k
            k += 1

    # ---------------------------------------------------------------- utils
    def fresh(self, base, sort="real"):
        self.n_fresh += 1
        nm = f"{base}!{self.n_fresh}"
        return z3.Int(nm) if sort == "int" else z3.Real(nm)

    def oblige(self, st: St, name: str, goal, meta=None):
        full = f"{self.tag}/{name}"
        n = self._obl_names.get(full, 0) + 1
        self._obl_names[full] = n
        self.obls.append(Obl(full if n == 1 else f"{full}#{n}", st.pc, goal, meta))

    def feasible(self, st: St, extra=None) -> bool:
        s = z3.Solver()
        s.set("timeout", self.feas_timeout_ms)
        for h in st.pc:
            s.add(h)
        if extra is not None:
            s.add(extra)
        return s.check() != z3.unsat

    # ---------------------------------------------------------------- expressions
    def truth(self, v):
        """z3 Bool or Python bool for the truth value of v"""
        if isinstance(v, S.SymBool):
            return v.t
        if isinstance(v, S.SymReal):
            return v.t != 0
        if isinstance(v, z3.BoolRef):
            return v
        if hasattr(v, "pyvc_truth"):
            t_ = v.pyvc_truth()
            return t_.t if isinstance(t_, S.SymBool) else t_
        if isinstance(v, (S.SymReal,)):
            raise PyvcUnsupported("truth of symbolic value")
        return bool(v)

    def ev(self, e, st: St):
        m = getattr(self, "ev_" + type(e).__name__, None)
        if m is None:
            raise PyvcUnsupported(f"expression {type(e).__name__} (line {getattr(e, 'lineno', '?')})")
        return m(e, st)

    def ev_Constant(self, e, st):
        return e.value

    def ev_Name(self, e, st):
        if e.id in st.env:
            v = st.env[e.id]
            if v is UNBOUND:
                raise UnboundLocal(e.id)
            return v
        if e.id in self.globals:
            return self.globals[e.id]
        if e.id in self.builtins:
            return self.builtins[e.id]
        raise PyvcUnsupported(f"name {e.id} has no model (line {e.lineno})")

    def ev_Attribute(self, e, st):
        v = self.ev(e.value, st)
        if getattr(type(v), "pyvc_getattr", None) is not None:
            return v.pyvc_getattr(e.attr, self, st)
        try:
            return getattr(v, e.attr)
        except AttributeError:
            raise PyvcUnsupported(f"attribute .{e.attr} of {type(v).__name__} (line {e.lineno})")

    def ev_Tuple(self, e, st):
        return tuple(self.ev(x, st) for x in e.elts)

    def ev_List(self, e, st):
        return [self.ev(x, st) for x in e.elts]

    def ev_Dict(self, e, st):
        return {self.ev(k, st): self.ev(v, st) for k, v in zip(e.keys, e.values)}

    def ev_BinOp(self, e, st):
        op = _BIN.get(type(e.op))
        if op is None:
            raise PyvcUnsupported(f"operator {type(e.op).__name__}")
        l, r = self.ev(e.left, st), self.ev(e.right, st)
        if isinstance(l, str) and isinstance(e.op, ast.Mod):
            return OpaqueStr()             # '%...' % values: text only, value irrelevant
        with self._ctx(st):
            return op(l, r)

    def ev_UnaryOp(self, e, st):
        v = self.ev(e.operand, st)
        if isinstance(e.op, ast.Not):
            t = self.truth(v)
            return S.SymBool(z3.Not(t)) if isinstance(t, z3.BoolRef) else (not t)
        if isinstance(e.op, ast.USub):
            return -v
        if isinstance(e.op, ast.UAdd):
            return +v
        raise PyvcUnsupported("unary op")

    def ev_BoolOp(self, e, st):
        # short-circuit: operand i is evaluated under the assumption that the operands before it did not decide the result, so that
        # safety obligations of a guarded operand (`not xs or xs[-2] != v`) carry their guard; the assumption is withdrawn afterwards
        is_and = isinstance(e.op, ast.And)
        vals = []
        guard_terms = []
        base = len(st.pc)
        for x in e.values:
            v = self.truth(self.ev(x, st))
            vals.append(v)
            if isinstance(v, bool):
                if v != is_and:
                    break                  # decided: later operands are not evaluated
                continue
            g = v if is_and else z3.Not(v)
            guard_terms.append(g)
            st.pc.append(g)
        if guard_terms:
            added = st.pc[base:]
            del st.pc[base:]
            active = []
            for c_ in added:
                # the guards themselves are withdrawn; whatever a stub assumed while guards were active is kept under those guards
                if any(c_ is g_ for g_ in guard_terms):
                    active.append(c_)
                else:
                    st.pc.append(z3.Implies(z3.And(*active), c_) if active else c_)
        if all(isinstance(v, bool) for v in vals):
            return all(vals) if isinstance(e.op, ast.And) else any(vals)
        ts = [v if isinstance(v, z3.BoolRef) else z3.BoolVal(v) for v in vals]
        return S.SymBool(z3.And(*ts) if isinstance(e.op, ast.And) else z3.Or(*ts))

    def ev_Compare(self, e, st):
        left = self.ev(e.left, st)
        res = None
        for op, right_e in zip(e.ops, e.comparators):
            right = self.ev(right_e, st)
            if isinstance(op, (ast.Is, ast.IsNot)):
                if right is None and hasattr(left, "pyvc_is_none"):
                    r = left.pyvc_is_none()
                    if isinstance(op, ast.IsNot):
                        r = S.SymBool(z3.Not(r.t)) if isinstance(r, S.SymBool) else (not r)
                else:
                    r = (left is right) if isinstance(op, ast.Is) else (left is not right)
            elif isinstance(op, (ast.In, ast.NotIn)):
                if hasattr(right, "pyvc_contains"):
                    r = right.pyvc_contains(left)
                else:
                    r = left in right
                if isinstance(op, ast.NotIn):
                    r = S.SymBool(z3.Not(r.t)) if isinstance(r, S.SymBool) else (not r)
            elif (isinstance(op, (ast.Eq, ast.NotEq)) and isinstance(left, tuple) and isinstance(right, tuple)
                  and any(isinstance(x, (S.SymReal, S.SymBool)) for x in left + right)):
                # tuple (in)equality with symbolic components: equal iff same arity and all components equal
                if len(left) != len(right):
                    r = isinstance(op, ast.NotEq)
                else:
                    with self._ctx(st):
                        parts = [self.truth(a_ == b_) for a_, b_ in zip(left, right)]
                    conj = z3.And(*[p if isinstance(p, z3.BoolRef) else z3.BoolVal(p) for p in parts])
                    r = S.SymBool(z3.Not(conj) if isinstance(op, ast.NotEq) else conj)
            else:
                with self._ctx(st):
                    r = _CMP[type(op)](left, right)
            if res is None:
                res = r
            else:
                a, b = self.truth(res), self.truth(r)
                if isinstance(a, bool) and isinstance(b, bool):
                    res = a and b
                else:
                    res = S.SymBool(z3.And(a if isinstance(a, z3.BoolRef) else z3.BoolVal(a),
                                           b if isinstance(b, z3.BoolRef) else z3.BoolVal(b)))
            left = right
        return res

    def ev_IfExp(self, e, st):
        t = self.truth(self.ev(e.test, st))
        if isinstance(t, bool):
            return self.ev(e.body if t else e.orelse, st)
        a, b = self.ev(e.body, st), self.ev(e.orelse, st)
        if isinstance(a, (S.SymReal, int, float)) and isinstance(b, (S.SymReal, int, float)):
            return S.SymReal(z3.If(t, S._num(a), S._num(b)))
        raise PyvcUnsupported("conditional expression over non-numeric values")

    def ev_Subscript(self, e, st):
        v = self.ev(e.value, st)
        if isinstance(e.slice, ast.Slice):
            lo = self.ev(e.slice.lower, st) if e.slice.lower else None
            hi = self.ev(e.slice.upper, st) if e.slice.upper else None
            step = self.ev(e.slice.step, st) if e.slice.step else None
            if hasattr(v, "pyvc_slice"):
                return v.pyvc_slice(lo, hi, step)
            return v[slice(lo, hi, step)]
        i = self.ev(e.slice, st)
        if hasattr(v, "pyvc_getitem"):
            return v.pyvc_getitem(i, self, st)
        return v[i]

    def ev_Call(self, e, st):
        f = self.ev(e.func, st)
        args = []
        for a in e.args:
            if isinstance(a, ast.Starred):
                args.extend(self.ev(a.value, st))
            else:
                args.append(self.ev(a, st))
        kw = {k.arg: self.ev(k.value, st) for k in e.keywords}
        if isinstance(f, Stub):
            return f.call(self, st, args, kw, e)
        if isinstance(f, Noop):
            return None
        if isinstance(getattr(f, "__self__", None), str):
            if self.str_hook is not None:
                return self.str_hook(f.__self__, f.__name__, args, kw)
            return OpaqueStr()             # text formatting (error messages): value irrelevant
        if f in _SAFE_CALLABLES or getattr(f, "pyvc_pure", False):
            with self._ctx(st):
                return f(*args, **kw)
        raise PyvcUnsupported(f"call of {getattr(f, '__name__', f)!r} has no contract (line {e.lineno})")

    def ev_Yield(self, e, st):
        """generator functions: every yielded value is appended to the ghost list st.env['__yielded__'] (declared by the sidecar)"""
        y = st.env.get("__yielded__")
        if y is None or not hasattr(y, "append"):
            raise PyvcUnsupported("yield: the sidecar declares no '__yielded__' list")
        y.append(self.ev(e.value, st) if e.value is not None else None)
        return None

    def ev_GeneratorExp(self, e, st):
        """(elt for x in <symbolic sequence>) with one generator and no condition: the mapped sequence (elt evaluated lazily per index,
        on a fork of the state at creation: the element expression must be pure)"""
        if len(e.generators) != 1 or e.generators[0].ifs or e.generators[0].is_async:
            raise PyvcUnsupported("comprehension with conditions / several generators")
        g = e.generators[0]
        it = self.ev(g.iter, st)
        if not hasattr(it, "pyvc_iter"):
            raise PyvcUnsupported("comprehension over a concrete iterable")
        length, item = it.pyvc_iter()
        snap = st.fork()

        def mapped(k):
            s2 = snap.fork()
            self.bind(g.target, item(k), s2)
            return self.ev(e.elt, s2)
        return MappedSeq(length, mapped)

    ev_ListComp = ev_GeneratorExp

    def ev_Lambda(self, e, st):
        raise PyvcUnsupported("lambda")

    def ev_JoinedStr(self, e, st):
        """f-string.  Without a sidecar str_hook: opaque text.  With one: rewritten to the equivalent  pattern.format(*values)  (format
        specs must be concrete) and handed to the hook, so f-strings and str.format are modelled alike."""
        if self.str_hook is None:
            return OpaqueStr()
        pattern, args = "", []
        for part in e.values:
            if isinstance(part, ast.Constant):
                pattern += str(part.value).replace("{", "{{").replace("}", "}}")
                continue
            if not isinstance(part, ast.FormattedValue):
                return OpaqueStr()
            spec = ""
            if part.format_spec is not None:
                for sp in part.format_spec.values:
                    if isinstance(sp, ast.Constant):
                        spec += str(sp.value)
                    elif isinstance(sp, ast.FormattedValue) and sp.format_spec is None and sp.conversion == -1:
                        v = self.ev(sp.value, st)
                        if not isinstance(v, (int, str)) or isinstance(v, bool):
                            return OpaqueStr()
                        spec += str(v)
                    else:
                        return OpaqueStr()
            conv = {-1: "", 115: "!s", 114: "!r", 97: "!a"}.get(part.conversion, "")
            pattern += "{" + conv + (":" + spec if spec else "") + "}"
            args.append(self.ev(part.value, st))
        return self.str_hook(pattern, "format", args, {})

    class _C:
        def __init__(self, interp, st):
            self.c = S.Ctx(assumptions=())
            self.st = st

        def __enter__(self):
            S._CTX.append(self.c)
            return self.c

        def __exit__(self, *a):
            S._CTX.pop()
            # definitions / safety obligations created by proxy operations (div, sqrt)
            for d in self.c.defs:
                self.st.pc.append(d)
            return False

    def _ctx(self, st):
        return Interp._C(self, st)

    # ---------------------------------------------------------------- statements
    def run_block(self, stmts, states: List[St]) -> List[St]:
        for s in stmts:
            nxt = []
            for st in states:
                if st.sig != NORMAL:
                    nxt.append(st)
                else:
                    nxt.extend(self.run_stmt(s, st))
            states = nxt
        return states

    def run_stmt(self, s, st: St) -> List[St]:
        m = getattr(self, "st_" + type(s).__name__, None)
        if m is None:
            raise PyvcUnsupported(f"statement {type(s).__name__} (line {s.lineno})")
        self._raise_frames.append([])
        try:
            out = m(s, st)
            return out + self._raise_frames[-1]
        except UnboundLocal as u:
            # reaching a read of an unbound local is a run-time error of the real code
            self.oblige(st, f"safety.no-unbound-local[{u.args[0]}]@L{s.lineno}", z3.BoolVal(False),
                        {"line": s.lineno, "var": u.args[0]})
            st.sig, st.val = RAISE, "UnboundLocalError"
            return [st] + self._raise_frames[-1]
        finally:
            self._raise_frames.pop()

    def bind(self, target, value, st: St):
        if isinstance(target, ast.Name):
            old = st.env.get(target.id)
            if hasattr(old, "pyvc_on_rebind"):
                pass
            st.env[target.id] = value
        elif isinstance(target, (ast.Tuple, ast.List)):
            vals = list(value)
            if len(vals) != len(target.elts):
                raise PyvcUnsupported("unpacking arity")
            for t, v in zip(target.elts, vals):
                self.bind(t, v, st)
        elif isinstance(target, ast.Attribute):
            obj = self.ev(target.value, st)
            if hasattr(obj, "pyvc_setattr"):
                obj.pyvc_setattr(target.attr, value, self, st)
            else:
                raise PyvcUnsupported(f"attribute assignment on {type(obj).__name__} (line {target.lineno})")
        elif isinstance(target, ast.Subscript) and isinstance(target.slice, ast.Slice):
            obj = self.ev(target.value, st)
            lo = self.ev(target.slice.lower, st) if target.slice.lower else None
            hi = self.ev(target.slice.upper, st) if target.slice.upper else None
            step = self.ev(target.slice.step, st) if target.slice.step else None
            if hasattr(obj, "pyvc_setslice"):
                obj.pyvc_setslice(lo, hi, step, value, self, st)
            else:
                raise PyvcUnsupported(f"slice assignment on {type(obj).__name__} (line {target.lineno})")
        elif isinstance(target, ast.Subscript):
            obj = self.ev(target.value, st)
            idx = self.ev(target.slice, st)
            if hasattr(obj, "pyvc_setitem"):
                obj.pyvc_setitem(idx, value, self, st)
            else:
                raise PyvcUnsupported(f"item assignment on {type(obj).__name__} (line {target.lineno})")
        else:
            raise PyvcUnsupported(f"assignment target {type(target).__name__}")

    def st_Assign(self, s, st):
        if (len(s.targets) == 1 and isinstance(s.targets[0], ast.Name) and s.targets[0].id in self.containers
                and ((isinstance(s.value, ast.List) and not s.value.elts) or (isinstance(s.value, ast.Dict) and not s.value.keys))):
            st.env[s.targets[0].id] = self.containers[s.targets[0].id]()     # sidecar-declared symbolic container for an empty literal
            return [st]
        v = self.ev(s.value, st)
        for t in s.targets:
            self.bind(t, v, st)
        return [st]

    def st_AnnAssign(self, s, st):
        if (isinstance(s.target, ast.Name) and s.target.id in self.containers and s.value is not None
                and ((isinstance(s.value, ast.List) and not s.value.elts) or (isinstance(s.value, ast.Dict) and not s.value.keys))):
            st.env[s.target.id] = self.containers[s.target.id]()
            return [st]
        if s.value is not None:
            self.bind(s.target, self.ev(s.value, st), st)
        return [st]

    def st_AugAssign(self, s, st):
        if isinstance(s.target, (ast.Attribute, ast.Subscript)):
            # obj.attr op= v  /  obj[k] op= v  on model objects: read, combine, write back (obj and k evaluated once: they are pure here)
            load = copy.copy(s.target)
            load.ctx = ast.Load()
            cur = self.ev(load, st)
            r = self.ev(s.value, st)
            with self._ctx(st):
                new = _BIN[type(s.op)](cur, r)
            self.bind(s.target, new, st)
            return [st]
        if not isinstance(s.target, ast.Name):
            raise PyvcUnsupported("augmented assignment to a non-name")
        cur = self.ev(ast.Name(id=s.target.id, ctx=ast.Load(), lineno=s.lineno, col_offset=0), st)
        r = self.ev(s.value, st)
        if hasattr(cur, "pyvc_inplace"):
            done = cur.pyvc_inplace(self, st, type(s.op).__name__, r, s.lineno)
            if done is not None:           # the model performed the update itself (e.g. list += segment)
                st.env[s.target.id] = done
                return [st]
        with self._ctx(st):
            st.env[s.target.id] = _BIN[type(s.op)](cur, r)
        return [st]

    def st_Expr(self, s, st):
        if isinstance(s.value, ast.Constant):
            return [st]
        self.ev(s.value, st)
        return [st]

    def st_Pass(self, s, st):
        return [st]

    def st_Continue(self, s, st):
        st.sig = CONTINUE
        return [st]

    def st_Break(self, s, st):
        st.sig = BREAK
        return [st]

    def st_Return(self, s, st):
        st.val = self.ev(s.value, st) if s.value is not None else None
        st.sig = RETURN
        return [st]

    def st_Raise(self, s, st):
        st.sig = RAISE
        st.val = ast.unparse(s.exc) if s.exc is not None else "re-raise"
        return [st]

    def may_raise(self, st: St, cond, exc_name: str):
        """called by a contract stub: the callee raises ``exc_name`` when ``cond``.  The raising path is a fork of the state at the
        call (effects of earlier calls in the same statement included, the statement's own binding not), attributed to the
        statement being executed; the current state continues under ``not cond``."""
        cond = z3.simplify(cond) if isinstance(cond, z3.ExprRef) else z3.BoolVal(bool(cond))
        if z3.is_false(cond):
            return
        if self.feasible(st, cond):
            r = st.fork()
            r.assume(cond)
            r.sig, r.val = RAISE, exc_name
            self._raise_frames[-1].append(r)
        st.assume(z3.Not(cond))

    _EXC_PARENTS = {"IOError": "OSError", "EnvironmentError": "OSError", "FileNotFoundError": "OSError", "OSError": "Exception",
                    "ValueError": "Exception", "IndexError": "LookupError", "KeyError": "LookupError", "LookupError": "Exception",
                    "TypeError": "Exception", "AttributeError": "Exception", "RuntimeError": "Exception", "StopIteration": "Exception",
                    "UnboundLocalError": "NameError", "NameError": "Exception", "ZeroDivisionError": "ArithmeticError",
                    "ArithmeticError": "Exception", "UnicodeError": "ValueError", "Exception": "BaseException"}

    @classmethod
    def _exc_name(cls, val):
        m = __import__("re").match(r"[A-Za-z_][A-Za-z_0-9.]*", str(val))
        n = m.group(0).split(".")[-1] if m else str(val)
        return "OSError" if n in ("IOError", "EnvironmentError") else n

    @classmethod
    def _catches(cls, handler_names, exc) -> Optional[bool]:
        """True / False, or None when the class of the raised exception is not known (both outcomes explored)"""
        if exc in ("*", "re-raise"):
            return None
        hn = {cls._exc_name(h) for h in handler_names}
        e, seen = exc, 0
        while e is not None and seen < 12:
            if e in hn:
                return True
            e, seen = cls._EXC_PARENTS.get(e), seen + 1
        if exc not in cls._EXC_PARENTS and exc != "BaseException":
            return None
        return False

    def st_Try(self, s, st):
        ends = self.run_block(s.body, [st])
        out = []
        for e_ in ends:
            if e_.sig != RAISE:
                out += self.run_block(s.orelse, [e_]) if (s.orelse and e_.sig == NORMAL) else [e_]
                continue
            exc = self._exc_name(e_.val)
            pending = [e_]
            for h in s.handlers:
                if not pending:
                    break
                if h.type is None:
                    names = ["BaseException"]
                elif isinstance(h.type, ast.Tuple):
                    names = [ast.unparse(x) for x in h.type.elts]
                else:
                    names = [ast.unparse(h.type)]
                c = True if "BaseException" in names else self._catches(names, exc)
                nxt = []
                for p_ in pending:
                    if c is None:
                        q = p_.fork()
                        nxt.append(q)
                    if c or c is None:
                        p_.sig, p_.val = NORMAL, None
                        if h.name:
                            p_.env[h.name] = "<exception>"
                        out += self.run_block(h.body, [p_])
                    else:
                        nxt.append(p_)
                pending = nxt
            out += pending
        if s.finalbody:
            fin = []
            for e_ in out:
                sig, val = e_.sig, e_.val
                e_.sig, e_.val = NORMAL, None
                for f_ in self.run_block(s.finalbody, [e_]):
                    if f_.sig == NORMAL:
                        f_.sig, f_.val = sig, val
                    fin.append(f_)
            out = fin
        return out

    def st_With(self, s, st):
        """with <expr> as <name>: the context manager model supplies pyvc_enter(interp, st) / pyvc_exit(interp, st, signal)"""
        if len(s.items) != 1:
            raise PyvcUnsupported("with: several items")
        cm = self.ev(s.items[0].context_expr, st)
        if not hasattr(cm, "pyvc_enter"):
            raise PyvcUnsupported(f"with: no model for {type(cm).__name__}")
        v = cm.pyvc_enter(self, st)
        if s.items[0].optional_vars is not None:
            self.bind(s.items[0].optional_vars, v, st)
        ends = self.run_block(s.body, [st])
        for e_ in ends:
            cm.pyvc_exit(self, e_, e_.sig)
        return ends

    def st_Import(self, s, st):
        return [st]

    st_ImportFrom = st_Import

    def split(self, st: St, t):
        """-> (state where t holds | None, state where not t | None)"""
        if isinstance(t, bool):
            return (st, None) if t else (None, st)
        t = z3.simplify(t)
        if z3.is_true(t):
            return st, None
        if z3.is_false(t):
            return None, st
        a_ok = self.feasible(st, t)
        b_ok = self.feasible(st, z3.Not(t))
        a = b = None
        if a_ok and b_ok:
            b = st.fork()
            a = st
            a.assume(t)
            b.assume(z3.Not(t))
        elif a_ok:
            a = st
            a.assume(t)
            self.paths_pruned += 1
        elif b_ok:
            b = st
            b.assume(z3.Not(t))
            self.paths_pruned += 1
        return a, b

    def st_If(self, s, st):
        t = self.truth(self.ev(s.test, st))
        a, b = self.split(st, t)
        out = []
        if a is not None:
            out += self.run_block(s.body, [a])
        if b is not None:
            out += self.run_block(s.orelse, [b]) if s.orelse else [b]
        return out

    # ---- loops
    def _havoc(self, st: St, names, spec: LoopSpec):
        for n in names:
            if n in spec.havoc_like:
                st.env[n] = spec.havoc_like[n](f"{n}@loop")
                continue
            cur = st.env.get(n, UNBOUND)
            if cur is UNBOUND:
                st.env[n] = UNBOUND
            elif hasattr(cur, "pyvc_fresh_like"):
                st.env[n] = cur.pyvc_fresh_like(self, n)
            elif isinstance(cur, S.SymReal):
                st.env[n] = S.SymReal(self.fresh(n, "int" if cur.t.is_int() else "real"))
            elif isinstance(cur, S.SymBool):
                self.n_fresh += 1
                st.env[n] = S.SymBool(z3.Bool(f"{n}!{self.n_fresh}"))
            elif isinstance(cur, bool):
                self.n_fresh += 1
                st.env[n] = S.SymBool(z3.Bool(f"{n}!{self.n_fresh}"))
            elif isinstance(cur, int):
                st.env[n] = S.SymReal(self.fresh(n, "int"))
            elif isinstance(cur, float):
                st.env[n] = S.SymReal(self.fresh(n))
            else:
                raise PyvcUnsupported(f"cannot havoc loop variable {n} of type {type(cur).__name__}")
        for g in spec.ghosts:
            cur = st.ghost[g]
            if hasattr(cur, "pyvc_fresh_like"):
                st.ghost[g] = cur.pyvc_fresh_like(self, g)
            elif isinstance(cur, z3.ArithRef):
                st.ghost[g] = self.fresh("ghost_" + g, "int" if cur.is_int() else "real")
            elif isinstance(cur, z3.ExprRef):
                self.n_fresh += 1
                st.ghost[g] = z3.Const(f"ghost_{g}!{self.n_fresh}", cur.sort())
            else:
                raise PyvcUnsupported(f"cannot havoc ghost {g}")

    def st_While(self, s, st):
        k = self._loop_ids[id(s)]
        spec = self.loops.get(k)
        if spec is None:
            raise PyvcUnsupported(f"loop #{k} (line {s.lineno}) has no invariant in the sidecar")
        lname = spec.name or f"loop{k}"
        self.oblige(st, f"{lname}/invariant.on-entry", spec.invariant(st), {"line": s.lineno})
        names = assigned_names(s.body)
        names = names + [r for r in mutated_roots(s.body) if r in st.env and r not in names and hasattr(st.env[r], "pyvc_fresh_like")]
        h = st.fork()
        self._havoc(h, names, spec)
        h.assume(spec.invariant(h))
        h.log = []
        t = self.truth(self.ev(s.test, h))
        body_st, exit_st = self.split(h, t)
        out = []
        if body_st is not None:
            if spec.on_iteration_start:
                spec.on_iteration_start(self, body_st)
            start = body_st.fork()
            ends = self.run_block(s.body, [body_st])
            for i, e_ in enumerate(ends):
                if e_.sig in (NORMAL, CONTINUE):
                    e_.sig = NORMAL
                    pid = f"{lname}/path{i}"
                    self.oblige(e_, f"{pid}/invariant.preserved", spec.invariant(e_), {"line": s.lineno})
                    if spec.step_post:
                        for nm, goal in spec.step_post(self, start, e_):
                            self.oblige(e_, f"{pid}/step.{nm}", goal)
                elif e_.sig == BREAK:
                    e_.sig = NORMAL
                    out.append(e_)
                else:
                    out.append(e_)      # return / raise inside the loop
        if exit_st is not None:
            if s.orelse:
                out += self.run_block(s.orelse, [exit_st])
            else:
                out.append(exit_st)
        return out

    def st_For(self, s, st):
        """for <targets> in <symbolic sequence>: same scheme as while, with the loop index k as a ghost:
        invariant(st, k); body assumes 0 <= k < len and binds the targets to item(k); exit assumes k == len."""
        kk = self._loop_ids[id(s)]
        spec = self.loops.get(kk)
        it = self.ev(s.iter, st)
        if not hasattr(it, "pyvc_iter"):
            # concrete iterable: unroll
            out = []
            states = [st]
            for item in it:
                nxt = []
                for s_ in states:
                    if s_.sig != NORMAL:
                        out.append(s_) if s_.sig not in (CONTINUE,) else None
                        continue
                    self.bind(s.target, item, s_)
                    for e_ in self.run_block(s.body, [s_]):
                        if e_.sig == CONTINUE:
                            e_.sig = NORMAL
                        if e_.sig == BREAK:
                            e_.sig = NORMAL
                            out.append(e_)
                        else:
                            nxt.append(e_)
                states = nxt
            return out + states
        if spec is None:
            raise PyvcUnsupported(f"loop #{kk} (line {s.lineno}) has no invariant in the sidecar")
        length, item = it.pyvc_iter()
        lname = spec.name or f"loop{kk}"
        self.oblige(st, f"{lname}/invariant.on-entry", spec.invariant(st, z3.IntVal(0)), {"line": s.lineno})
        names = [n for n in assigned_names(s.body) if n in st.env] + [n for n in assigned_names([ast.Assign(targets=[s.target], value=ast.Constant(0), lineno=s.lineno)])]
        h = st.fork()
        k = self.fresh(f"{lname}_k", "int")
        for n in assigned_names(s.body):
            if n not in h.env:
                h.env[n] = UNBOUND
        self._havoc(h, [n for n in assigned_names(s.body)] + [r for r in mutated_roots(s.body) if r in h.env and r not in assigned_names(s.body)
                                                              and hasattr(h.env[r], "pyvc_fresh_like")], spec)
        h.assume(spec.invariant(h, k))
        h.log = []
        out = []
        body_st, exit_st = h.fork(), h
        body_st.assume(z3.And(k >= 0, k < length))
        if self.feasible(body_st):
            self.bind(s.target, item(k), body_st)
            if spec.on_iteration_start:
                spec.on_iteration_start(self, body_st, k)
            ends = self.run_block(s.body, [body_st])
            for i, e_ in enumerate(ends):
                if e_.sig in (NORMAL, CONTINUE):
                    e_.sig = NORMAL
                    self.oblige(e_, f"{lname}/path{i}/invariant.preserved", spec.invariant(e_, k + 1), {"line": s.lineno})
                elif e_.sig == BREAK:
                    e_.sig = NORMAL          # leaves the loop at iteration k: continues after the loop with what is known here
                    out.append(e_)
                else:
                    out.append(e_)
        exit_st.assume(k == length)
        exit_st.assume(length >= 0)
        out.append(exit_st)
        return out

    # ---------------------------------------------------------------- entry
    def run(self, args: Dict[str, Any], ghost: Optional[Dict[str, Any]] = None, pre=()) -> List[St]:
        st = St()
        for a in self.fn.args.args:
            if a.arg not in args:
                raise PyvcUnsupported(f"no symbolic value for parameter {a.arg}")
        st.env.update(args)
        for n in assigned_names(self.fn.body):
            st.env.setdefault(n, UNBOUND)
        st.ghost.update(ghost or {})
        for p in pre:
            st.assume(p)
        body = self.fn.body
        if body and isinstance(body[0], ast.Expr) and isinstance(body[0].value, ast.Constant) and isinstance(body[0].value.value, str):
            body = body[1:]
        ends = self.run_block(body, [st])
        for e_ in ends:
            if e_.sig == NORMAL:
                e_.sig, e_.val = RETURN, None
        return ends


class _Unbound:
    def __repr__(self):
        return "<unbound>"


UNBOUND = _Unbound()


class UnboundLocal(Exception):
    pass


class Stub:
    """contract stub of a callee: ``fn(interp, st, args, kwargs, call_node) -> value``"""

    def __init__(self, name, fn):
        self.name = name
        self.fn = fn

    def call(self, interp, st, args, kw, node):
        return self.fn(interp, st, args, kw, node)


def sym_len(v):
    if hasattr(v, "pyvc_len"):
        return v.pyvc_len()
    return len(v)


_SAFE_CALLABLES = {sym_len, abs, min, max, range, isinstance, tuple, list, int, float, set, dict, sum,
                   enumerate, zip, sorted, hasattr}
