"""Spec vocabulary with two interpretations.

Contract clauses are built with ordinary Python arithmetic on "numbers" that are
either z3 real terms (symbolic interpretation: the clause becomes a VC) or
Python floats (numeric interpretation: the clause is evaluated with a
tolerance -- used for replay of counterexamples and for the bounded run-time
contract layer).  There is one statement of each contract.
"""
from __future__ import annotations

import math
from typing import Iterable, List, Sequence

import z3


class Clause:
    __slots__ = ("name", "rel", "lhs", "rhs")

    def __init__(self, name: str, rel: str, lhs, rhs=0):
        assert rel in ("eq", "ge", "gt", "le", "lt", "ne", "bool")
        self.name, self.rel, self.lhs, self.rhs = name, rel, lhs, rhs

    # symbolic
    def z3(self):
        l, r = self.lhs, self.rhs
        if self.rel == "bool":
            return l if isinstance(l, z3.BoolRef) else z3.BoolVal(bool(l))
        return {"eq": lambda: l == r, "ge": lambda: l >= r, "gt": lambda: l > r,
                "le": lambda: l <= r, "lt": lambda: l < r, "ne": lambda: l != r}[self.rel]()

    # numeric
    def holds(self, tol=1e-9, scale=1.0) -> bool:
        if self.rel == "bool":
            return bool(self.lhs)
        l, r = float(self.lhs), float(self.rhs)
        if math.isnan(l) or math.isnan(r) or math.isinf(l) or math.isinf(r):
            return False
        t = tol * max(1.0, scale, abs(l), abs(r))
        return {"eq": abs(l - r) <= t, "ge": l >= r - t, "gt": l > r - t,
                "le": l <= r + t, "lt": l < r + t, "ne": abs(l - r) > 0}[self.rel]

    def describe(self):
        try:
            return f"{self.name}: {float(self.lhs)!r} {self.rel} {float(self.rhs)!r}"
        except Exception:
            return f"{self.name}: {self.rel}"


def eqs(name: str, lhs: Sequence, rhs: Sequence) -> List[Clause]:
    lhs, rhs = list(lhs), list(rhs)
    assert len(lhs) == len(rhs), (name, len(lhs), len(rhs))
    return [Clause(f"{name}[{i}]", "eq", a, b) for i, (a, b) in enumerate(zip(lhs, rhs))]


def conj(clauses: Iterable[Clause]):
    cs = [c.z3() for c in clauses]
    return z3.And(*cs) if len(cs) != 1 else cs[0]


# ---- small linear algebra over plain Python sequences ----------------------


def dot(a, b):
    s = 0
    for x, y in zip(a, b):
        s = s + x * y
    return s


def cross(a, b):
    return [a[1] * b[2] - a[2] * b[1], a[2] * b[0] - a[0] * b[2], a[0] * b[1] - a[1] * b[0]]


def sub(a, b):
    return [x - y for x, y in zip(a, b)]


def add(a, b):
    return [x + y for x, y in zip(a, b)]


def scale(k, a):
    return [k * x for x in a]


def norm2(a):
    return dot(a, a)


def matvec(M, v):
    return [dot(row, v) for row in M]


def vecmat(v, M):
    """row vector times matrix (numpy: np.dot(v, M))"""
    n = len(M[0])
    return [sum((v[k] * M[k][j] for k in range(1, len(v))), v[0] * M[0][j]) for j in range(n)]


def matmul(A, B):
    return [[dot(row, [B[k][j] for k in range(len(B))]) for j in range(len(B[0]))] for row in A]


def transpose(M):
    return [list(r) for r in zip(*M)]


def det3(M):
    return dot(M[0], cross(M[1], M[2]))


def trace(M):
    return M[0][0] + M[1][1] + M[2][2]


def ident(n=3):
    return [[1 if i == j else 0 for j in range(n)] for i in range(n)]


def flat(M):
    return [x for row in M for x in row]


def rows(arr, r, c=3):
    """nested list view of a flat list / array"""
    f = list(arr)
    return [f[i * c:(i + 1) * c] for i in range(r)]


def is_rotation_hyps(R):
    """hypotheses: R in SO(3) (nine symbols): R R^T = I and det R = 1"""
    RRt = matmul(R, transpose(R))
    I = ident()
    hy = [RRt[i][j] == I[i][j] for i in range(3) for j in range(i, 3)]
    hy.append(det3(R) == 1)
    # redundant but useful to the Groebner back end: rows as cross products
    for (a, b, c) in ((0, 1, 2), (1, 2, 0), (2, 0, 1)):
        cr = cross(R[a], R[b])
        hy += [cr[k] == R[c][k] for k in range(3)]
    RtR = matmul(transpose(R), R)
    hy += [RtR[i][j] == I[i][j] for i in range(3) for j in range(i, 3)]
    return hy
