"""symrun -- run the *real* numeric code of /repo on symbolic real numbers.

SymReal / SymBool wrap z3 terms and overload arithmetic, comparison and the
method names numpy's object-dtype ufunc loops look up (sqrt, cos, sin, rint).
numpy itself then executes the real function bodies on ``dtype=object`` arrays.
``bool()`` of a symbolic condition is a decision point; ``explore`` enumerates
every feasible path by re-execution with a decision prefix.

Non-polynomial primitives introduce a fresh variable with a defining side
constraint and a *safety obligation* (definedness):

  sqrt(x) -> r >= 0, r*r == x         obligation x >= 0
  a / b   -> q*b == a                 obligation b != 0
  cos/sin -> uninterpreted c(t), s(t) with c^2+s^2 == 1 (A4 axioms added by user)
  rint(x) -> integer k, |x-k| <= 1/2
"""
from __future__ import annotations

import os

import contextlib
from fractions import Fraction
from typing import Any, Callable, List, Optional

import numpy as np
import z3


class Infeasible(Exception):
    """Raised when a decision prefix turns out to be infeasible."""


class SymError(Exception):
    """Construct outside what symrun supports -> obligation is undecided."""


# --------------------------------------------------------------------------
# context


class Ctx:
    def __init__(self, prefix=(), feas_timeout_ms=2000, assumptions=()):
        self.prefix = list(prefix)
        self.decisions: List[bool] = []
        self.alternatives: List[List[bool]] = []
        self.pc: List[z3.BoolRef] = []          # path condition (branch decisions)
        self.defs: List[z3.BoolRef] = list(assumptions)  # assumptions + definitions
        self.safety: List[tuple] = []           # (name, cond, hyps snapshot)
        self.events: List[tuple] = []           # free-form trace (stub calls ...)
        self.n_fresh = 0
        self.feas_timeout_ms = feas_timeout_ms
        self.solver_calls = 0
        self._known = {}

    # -- fresh symbols
    def fresh(self, base: str, sort="real"):
        self.n_fresh += 1
        name = f"{base}!{self.n_fresh}"
        return z3.Int(name) if sort == "int" else z3.Real(name)

    def assume(self, cond):
        self.defs.append(cond)

    def hyps(self):
        return list(self.defs) + list(self.pc)

    def oblige(self, name: str, cond):
        """Record a safety obligation, then assume it for what follows."""
        self.safety.append((name, cond, self.hyps()))
        self.defs.append(cond)

    # -- decisions
    def _feasible(self, cond) -> bool:
        s = z3.Solver()
        s.set("timeout", self.feas_timeout_ms)
        for h in self.hyps():
            s.add(h)
        s.add(cond)
        self.solver_calls += 1
        r = s.check()
        return r != z3.unsat      # unknown counts as feasible (sound)

    def choose(self) -> bool:
        """free nondeterministic boolean choice (contract stubs that may return any of several values):
        always forks, no solver call"""
        self.n_fresh += 1
        cond = z3.Bool(f"choice!{self.n_fresh}")
        k = len(self.decisions)
        if k < len(self.prefix):
            val = self.prefix[k]
        else:
            val = True
            self.alternatives.append(self.decisions + [False])
        self.decisions.append(val)
        self.pc.append(cond if val else z3.Not(cond))
        return val

    def decide(self, cond: z3.BoolRef) -> bool:
        cond = z3.simplify(cond)
        if z3.is_true(cond):
            return True
        if z3.is_false(cond):
            return False
        key = cond.get_id()
        if key in self._known:
            return self._known[key][0]
        k = len(self.decisions)
        if k < len(self.prefix):
            val = self.prefix[k]
        else:
            t_ok = self._feasible(cond)
            f_ok = self._feasible(z3.Not(cond))
            if t_ok and f_ok:
                val = True
                self.alternatives.append(self.decisions + [False])
            elif t_ok:
                val = True
            elif f_ok:
                val = False
            else:
                raise Infeasible()
        self.decisions.append(val)
        self.pc.append(cond if val else z3.Not(cond))
        ncond = z3.simplify(z3.Not(cond))
        # keep the terms alive: z3 AST ids are reused after garbage collection
        self._known[key] = (val, cond)
        self._known[ncond.get_id()] = (not val, ncond)
        return val


_CTX: List[Ctx] = []


def ctx() -> Ctx:
    if not _CTX:
        raise SymError("no active symrun context")
    return _CTX[-1]


@contextlib.contextmanager
def active(c: Ctx):
    _CTX.append(c)
    try:
        yield c
    finally:
        _CTX.pop()


# --------------------------------------------------------------------------
# proxies


def _num(x) -> z3.ArithRef:
    if isinstance(x, SymReal):
        return x.t
    if isinstance(x, bool):
        return z3.RealVal(int(x))
    if isinstance(x, (int, np.integer)):
        return z3.RealVal(int(x))
    if isinstance(x, (float, np.floating)):
        f = Fraction(float(x))
        return z3.RealVal(f"{f.numerator}/{f.denominator}")
    if isinstance(x, Fraction):
        return z3.RealVal(f"{x.numerator}/{x.denominator}")
    if isinstance(x, z3.ArithRef):
        return z3.ToReal(x) if x.is_int() else x
    raise SymError(f"cannot lift {type(x).__name__} to a symbolic real")


def _liftable(x) -> bool:
    return isinstance(x, (SymReal, int, float, np.integer, np.floating, Fraction, bool))


class SymBool:
    __slots__ = ("t",)

    def __init__(self, t):
        self.t = t

    def __bool__(self):
        return ctx().decide(self.t)

    def __and__(self, o):
        return SymBool(z3.And(self.t, _b(o)))

    __rand__ = __and__

    def __or__(self, o):
        return SymBool(z3.Or(self.t, _b(o)))

    __ror__ = __or__

    def __invert__(self):
        return SymBool(z3.Not(self.t))

    def __repr__(self):
        return f"SymBool({self.t})"


def _b(x):
    if isinstance(x, SymBool):
        return x.t
    if isinstance(x, (bool, np.bool_)):
        return z3.BoolVal(bool(x))
    if isinstance(x, z3.BoolRef):
        return x
    raise SymError(f"cannot lift {type(x).__name__} to a symbolic bool")


class SymReal:
    __slots__ = ("t",)
    __hash__ = None  # type: ignore

    def __init__(self, t):
        self.t = t

    def _o(self, o):
        """lift the other operand; integer literals stay integers next to an Int-sorted term"""
        if self.t.is_int():
            if isinstance(o, (int, np.integer)) and not isinstance(o, bool):
                return z3.IntVal(int(o))
            if isinstance(o, SymReal) and o.t.is_int():
                return o.t
        return _num(o)

    # ---- arithmetic
    def __add__(self, o):
        if not _liftable(o):
            return NotImplemented
        return SymReal(self.t + self._o(o))

    __radd__ = __add__

    def __sub__(self, o):
        if not _liftable(o):
            return NotImplemented
        return SymReal(self.t - self._o(o))

    def __rsub__(self, o):
        if not _liftable(o):
            return NotImplemented
        return SymReal(self._o(o) - self.t)

    def __mul__(self, o):
        if not _liftable(o):
            return NotImplemented
        return SymReal(self.t * self._o(o))

    __rmul__ = __mul__

    def __neg__(self):
        return SymReal(-self.t)

    def __pos__(self):
        return self

    def __abs__(self):
        return SymReal(z3.If(self.t >= 0, self.t, -self.t))

    def __truediv__(self, o):
        if not _liftable(o):
            return NotImplemented
        return sym_div(self, o)

    def __rtruediv__(self, o):
        if not _liftable(o):
            return NotImplemented
        return sym_div(o, self)

    def __mod__(self, o):
        if self.t.is_int() and isinstance(o, (int, np.integer)) and int(o) > 0:
            return SymReal(self.t % int(o))          # z3 integer mod, non-negative result (as Python's for a positive modulus)
        raise SymError("unsupported %")

    def __floordiv__(self, o):
        if self.t.is_int() and isinstance(o, (int, np.integer)) and int(o) > 0:
            return SymReal(self.t / int(o))          # z3 integer division by a positive constant = floor division
        raise SymError("unsupported //")

    def __index__(self):
        raise SymError("symbolic value used as an index")

    def __pow__(self, n):
        if isinstance(n, (int, np.integer)) and int(n) >= 0:
            r = z3.RealVal(1)
            for _ in range(int(n)):
                r = r * self.t
            return SymReal(r)
        if isinstance(n, float) and n == 0.5:
            return self.sqrt()
        raise SymError(f"unsupported exponent {n!r}")

    # ---- comparisons
    def __lt__(self, o):
        return SymBool(self.t < _num(o))

    def __le__(self, o):
        return SymBool(self.t <= _num(o))

    def __gt__(self, o):
        return SymBool(self.t > _num(o))

    def __ge__(self, o):
        return SymBool(self.t >= _num(o))

    def __eq__(self, o):  # type: ignore
        if not _liftable(o):
            return NotImplemented
        return SymBool(self.t == _num(o))

    def __ne__(self, o):  # type: ignore
        if not _liftable(o):
            return NotImplemented
        return SymBool(self.t != _num(o))

    def __bool__(self):
        return ctx().decide(self.t != 0)

    # ---- numpy object-loop hooks
    def sqrt(self):
        c = ctx()
        c.oblige("sqrt-nonneg", self.t >= 0)
        r = c.fresh("sqrt")
        c.assume(r >= 0)
        c.assume(r * r == self.t)
        c.events.append(("sqrt", self.t, r))
        return SymReal(r)

    def cos(self):
        return SymReal(COS(self.t))

    def sin(self):
        return SymReal(SIN(self.t))

    def hypot(self, o):
        return (self * self + (o * o if isinstance(o, SymReal) else SymReal(_num(o) * _num(o)))).sqrt()

    def rint(self):
        c = ctx()
        k = c.fresh("rint", "int")
        kr = z3.ToReal(k)
        c.assume(self.t - kr <= z3.Q(1, 2))
        c.assume(kr - self.t <= z3.Q(1, 2))
        c.events.append(("rint", self.t, k))
        return SymReal(kr)

    def __round__(self, n=None):
        if n not in (None, 0):
            raise SymError("round(x, n) unsupported")
        return self.rint()

    def conjugate(self):
        return self

    def __float__(self):
        raise SymError("float() of a symbolic value (a dependency wants native floats)")

    def __int__(self):
        raise SymError("int() of a symbolic value")

    def __repr__(self):
        return f"SymReal({self.t})"

    def __format__(self, spec):
        hook = getattr(ctx(), "format_hook", None) if _CTX else None
        if hook is None:
            raise SymError("format() of a symbolic value")
        return hook(self, spec)


COS = z3.Function("cos", z3.RealSort(), z3.RealSort())
SIN = z3.Function("sin", z3.RealSort(), z3.RealSort())


def trig_axioms(*angles):
    """A4: the axioms assumed about the uninterpreted cos/sin at given angles."""
    ax = []
    for a in angles:
        a = _num(a)
        ax += [COS(a) * COS(a) + SIN(a) * SIN(a) == 1,
               COS(-a) == COS(a), SIN(-a) == -SIN(a)]
    for i, a in enumerate(angles):
        for b in angles[i:]:
            a_, b_ = _num(a), _num(b)
            ax += [COS(a_ + b_) == COS(a_) * COS(b_) - SIN(a_) * SIN(b_),
                   SIN(a_ + b_) == SIN(a_) * COS(b_) + COS(a_) * SIN(b_)]
    return ax


def sym_div(a, b):
    c = ctx()
    bt = _num(b)
    at = _num(a)
    if z3.is_rational_value(bt) and not z3.is_true(z3.simplify(bt == 0)):
        return SymReal(at / bt)       # division by a non-zero constant stays linear
    c.oblige("div-nonzero", bt != 0)
    q = c.fresh("quot")
    c.assume(q * bt == at)
    c.events.append(("div", at, bt, q))
    return SymReal(q)


def find_sqrt(c: "Ctx", target, hyps=None):
    """The fresh variable r introduced by the run for sqrt(arg) with arg == target
    (syntactically after simplification, or provably under hyps)."""
    for ev in c.events:
        if ev[0] != "sqrt":
            continue
        if z3.is_true(z3.simplify(ev[1] == target)) or z3.simplify(ev[1] - target).eq(z3.RealVal(0)):
            return ev[2]
    if hyps is not None:
        for ev in c.events:
            if ev[0] != "sqrt":
                continue
            s_ = z3.Solver()
            s_.set("timeout", 3000)
            for h in hyps:
                s_.add(h)
            s_.add(ev[1] != target)
            if s_.check() == z3.unsat:
                return ev[2]
    return None


# --------------------------------------------------------------------------
# helpers to build symbolic inputs


def real(name: str) -> SymReal:
    return SymReal(z3.Real(name))


def vec(name: str, n=3) -> np.ndarray:
    a = np.empty(n, dtype=object)
    for i in range(n):
        a[i] = real(f"{name}_{i}")
    return a


def mat(name: str, r: int, c: int = 3) -> np.ndarray:
    a = np.empty((r, c), dtype=object)
    for i in range(r):
        for j in range(c):
            a[i, j] = real(f"{name}_{i}_{j}")
    return a


def terms(arr) -> list:
    """Flatten an array-like of proxies / numbers to a list of z3 terms."""
    return [_num(x) for x in np.asarray(arr, dtype=object).ravel()]


def T(x):
    return _num(x)


# --------------------------------------------------------------------------
# numpy facade (A2): only a requested float dtype is changed, and only when the
# data contains proxies


def _has_proxy(obj) -> bool:
    if isinstance(obj, SymReal):
        return True
    if isinstance(obj, np.ndarray):
        return obj.dtype == object and any(isinstance(x, SymReal) for x in obj.ravel())
    if isinstance(obj, (list, tuple)):
        return any(_has_proxy(x) for x in obj)
    return False


class NumpyFacade:
    """Forwards everything to numpy; ``array/asarray/zeros_like`` with an explicit
    float dtype and proxy content produce an object array instead."""

    def __init__(self, extra=None):
        self._extra = extra or {}

    def __getattr__(self, name):
        if name in self._extra:
            return self._extra[name]
        return getattr(np, name)

    def array(self, obj, *a, **k):
        dt = k.get("dtype", a[0] if a else None)
        if dt is not None and dt is not object and _has_proxy(obj):
            k = dict(k)
            k["dtype"] = object
            a = a[1:] if a else a
        return np.array(obj, *a, **k)

    def asarray(self, obj, *a, **k):
        dt = k.get("dtype", a[0] if a else None)
        if dt is not None and dt is not object and _has_proxy(obj):
            k = dict(k)
            k["dtype"] = object
            a = a[1:] if a else a
        return np.asarray(obj, *a, **k)

    def round(self, x, *a, **k):
        if _has_proxy(x):
            arr = np.asarray(x, dtype=object)
            out = np.empty(arr.shape, dtype=object)
            for idx in np.ndindex(arr.shape):
                v = arr[idx]
                out[idx] = v.rint() if isinstance(v, SymReal) else round(v)
            return out if out.shape else out[()]
        return np.round(x, *a, **k)


@contextlib.contextmanager
def patched(module, **names):
    """Bind names in a module namespace for the duration of a symbolic run."""
    missing = object()
    old = {k: module.__dict__.get(k, missing) for k in names}
    module.__dict__.update(names)
    try:
        yield
    finally:
        for k, v in old.items():
            if v is missing:
                module.__dict__.pop(k, None)
            else:
                module.__dict__[k] = v


# --------------------------------------------------------------------------
# path exploration


class Path:
    def __init__(self, c: Ctx, result=None, exc: Optional[BaseException] = None):
        self.ctx = c
        self.result = result
        self.exc = exc
        self.decisions = list(c.decisions)

    def hyps(self):
        return self.ctx.hyps()


def _proxy_limitation(e: BaseException) -> bool:
    if not isinstance(e, (TypeError, AttributeError, NotImplementedError, ValueError)):
        return False
    msg = str(e)
    return any(k in msg for k in ("SymReal", "SymBool", "object arrays are not supported", "dtype('O')", "not supported for the input types",
                                  "loop of ufunc does not support", "has no callable", "must be real number, not"))


_VERIF_ROOT = os.path.dirname(os.path.dirname(os.path.abspath(__file__)))


def _raised_in_harness(e: BaseException) -> bool:
    """True when the innermost Python frame of the traceback is a file of /verif (harness, stub, proxy) and the exception is one of the
    kinds a missing attribute / unsupported model operation produces.  Exceptions raised by lines of the repository, of numpy or of the
    standard library (whatever the harness frames above them) are behaviours of the code under check."""
    if not isinstance(e, (AttributeError, KeyError, TypeError, NameError, NotImplementedError, IndexError)):
        return False
    tb, last = e.__traceback__, None
    while tb is not None:
        last, tb = tb, tb.tb_next
    if last is None:
        return False
    fn = os.path.abspath(last.tb_frame.f_code.co_filename)
    return fn.startswith(_VERIF_ROOT + os.sep)


def explore(run: Callable[[Ctx], Any], assumptions=(), max_paths=512,
            feas_timeout_ms=2000, catch=(Exception,), max_secs: Optional[float] = None) -> List[Path]:
    """Enumerate every feasible path of ``run`` (a closure that builds fresh
    symbolic inputs and calls the real function).  ``assumptions`` are the
    precondition terms, available to feasibility pruning."""
    import time as _time
    t_start = _time.time()
    stack: List[List[bool]] = [[]]
    paths: List[Path] = []
    while stack:
        if max_secs is not None and _time.time() - t_start > max_secs:
            raise SymError(f"path exploration exceeded {max_secs}s ({len(paths)} paths so far)")
        prefix = stack.pop()
        c = Ctx(prefix, feas_timeout_ms=feas_timeout_ms, assumptions=assumptions)
        try:
            with active(c):
                res = run(c)
            paths.append(Path(c, res))
        except Infeasible:
            pass
        except SymError:
            raise
        except catch as e:  # the real code raised on this path
            if _raised_in_harness(e):
                # raised by a line of the verification harness itself (a private attribute the harness reads no longer exists, a model object
                # lacks an operation): not a behaviour of the code under check -> undecided, never an alarm
                raise SymError(f"exception raised inside the harness, not by the code under check: {type(e).__name__}: {e}")
            if _proxy_limitation(e):
                # not a behaviour of the code under check: the symbolic proxies do not support an operation
                # (e.g. a numpy ufunc without an object loop) -> undecided, never an alarm
                raise SymError(f"operation not supported on symbolic values: {type(e).__name__}: {e}")
            paths.append(Path(c, None, e))
        stack.extend(c.alternatives)
        if len(paths) > max_paths:
            raise SymError(f"more than {max_paths} paths")
    return paths
