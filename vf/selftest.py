"""./check --selftest : CPython cross-check of the pyvc statement interpreter (not a registered check).

Small functions exercising try/except/else/finally, raising callees, early return, break/continue in concrete loops are
(1) executed by CPython on every combination of their Boolean inputs and (2) interpreted by pyvc with symbolic Booleans;
for every combination exactly one pyvc exit path must be feasible and it must agree with CPython on: normal/raise, the
exception class, the returned value and the sequence of logged calls.
"""
from __future__ import annotations

import itertools
import os
import sys
import tempfile
import textwrap

import z3

from . import pyvc, symrun as S
from .pyvc import Stub

SRC = '''
def f1(a, b):
    r = 0
    try:
        r = g(a)
        r = r + h(b)
    except ValueError:
        r = 10
    else:
        r = r + 100
    finally:
        log(r)
    return r


def f2(a, b, c):
    try:
        try:
            x = g(a)
        except IndexError:
            log(1)
            x = 5
        y = h(b)
    except (ValueError, IndexError):
        log(2)
        if c:
            raise IOError("again")
        return -1
    log(3)
    return x + y


def f3(a, b):
    n = 0
    for i in [0, 1, 2]:
        try:
            if i == 1:
                g(a)
            n = n + 1
        except ValueError:
            log(i)
            continue
        finally:
            n = n + 10
        if i == 2:
            h(b)
    return n


def f4(a, b):
    try:
        g(a)
    except OSError:
        log(7)
    v = 1
    try:
        v = v + h(b)
    except LookupError:
        v = 50
    return v


def f5(a, b, c):
    r = 0
    if not k(c):
        r = 1
    try:
        r = r + g(a)
    except ValueError:
        raise IOError("wrapped")
    try:
        h(b)
    except ValueError:
        r = r + 1000
    return r
'''


class _Log(list):
    pass


def _concrete(fname, vals):
    log = []

    def g(a):
        log.append(("g",))
        if a:
            raise ValueError("g")
        return 1

    def h(b):
        log.append(("h",))
        if b:
            raise IndexError("h")
        return 1

    def k(c):
        log.append(("k",))
        return bool(c)

    ns = {"g": g, "h": h, "k": k, "log": lambda x: log.append(("log", x)), "IOError": IOError}
    exec(SRC, ns)
    try:
        r = ns[fname](*vals)
        return ("return", r, log)
    except Exception as e:
        return ("raise", "OSError" if isinstance(e, OSError) else type(e).__name__, log)


def _symbolic(fname, names, path):
    syms = {n: z3.Bool(n) for n in names}

    def g(it, st, a, k_, n):
        st.log.append(("g",))
        it.may_raise(st, a[0].t, "ValueError")
        return 1

    def h(it, st, a, k_, n):
        st.log.append(("h",))
        it.may_raise(st, a[0].t, "IndexError")
        return 1

    def k(it, st, a, k_, n):
        st.log.append(("k",))
        return a[0]

    def log(it, st, a, k_, n):
        st.log.append(("log", a[0]))

    old = pyvc.REPO
    pyvc.REPO = os.path.dirname(path)
    try:
        it = pyvc.Interp(os.path.basename(path), fname, {"g": Stub("g", g), "h": Stub("h", h), "k": Stub("k", k), "log": Stub("log", log),
                                                        "IOError": IOError, "ValueError": ValueError, "IndexError": IndexError,
                                                        "OSError": OSError, "LookupError": LookupError}, {}, f"selftest/{fname}")
        ends = it.run({n: S.SymBool(syms[n]) for n in names})
    finally:
        pyvc.REPO = old
    return syms, ends


def _val(v, model_subst):
    if isinstance(v, S.SymReal):
        t = z3.simplify(z3.substitute(v.t, *model_subst))
        return t.as_long() if z3.is_int_value(t) else float(t.as_fraction())
    if isinstance(v, S.SymBool):
        return z3.is_true(z3.simplify(z3.substitute(v.t, *model_subst)))
    return v


def main(argv=None):
    tmp = tempfile.mkdtemp(prefix="pyvc_selftest_")
    path = os.path.join(tmp, "selftest_src.py")
    with open(path, "w") as f:
        f.write(textwrap.dedent(SRC))
    cases = [("f1", ["a", "b"]), ("f2", ["a", "b", "c"]), ("f3", ["a", "b"]), ("f4", ["a", "b"]), ("f5", ["a", "b", "c"])]
    bad = n = 0
    for fname, names in cases:
        syms, ends = _symbolic(fname, names, path)
        for vals in itertools.product([False, True], repeat=len(names)):
            n += 1
            subst = [(syms[nm], z3.BoolVal(v)) for nm, v in zip(names, vals)]
            feas = []
            for e in ends:
                pc = z3.simplify(z3.substitute(z3.And(*e.pc) if e.pc else z3.BoolVal(True), *subst))
                if z3.is_true(pc):
                    feas.append(e)
                elif not z3.is_false(pc):
                    sl = z3.Solver()
                    sl.add(pc)
                    if sl.check() == z3.sat:
                        feas.append(e)
            want = _concrete(fname, vals)
            if len(feas) != 1:
                bad += 1
                print(f"SELFTEST-FAIL {fname}{vals}: {len(feas)} feasible pyvc exits, CPython: {want}")
                continue
            e = feas[0]
            got_log = [tuple(_val(x, subst) for x in ev) for ev in e.log]
            if e.sig == pyvc.RAISE:
                got = ("raise", pyvc.Interp._exc_name(e.val), got_log)
            else:
                got = ("return", _val(e.val, subst), got_log)
            if got != (want[0], want[1], [tuple(x) for x in want[2]]):
                bad += 1
                print(f"SELFTEST-FAIL {fname}{vals}: pyvc {got} != CPython {want}")
    try:
        os.remove(path)
        os.rmdir(tmp)
    except OSError:
        pass
    print(f"selftest: {n} input combinations of {len(cases)} functions, {bad} disagreement(s)")
    return 1 if bad else 0


if __name__ == "__main__":
    sys.exit(main(sys.argv[1:]))
