"""Obligation bookkeeping shared by the engines."""
from __future__ import annotations

import os
import time
from typing import Callable, Dict, List, Optional, Sequence

import z3

from . import backends as B


def ob(id, status, *, kind="proof", engine="symrun", backend="-", secs=0.0, reason="",
       cex=None, model=None, sample=None, expect=None, evaluations=None, nontrivial=None, concolic=0):
    d = {"id": id, "status": status, "kind": kind, "engine": engine, "backend": backend,
         "secs": float(secs)}
    if reason:
        d["reason"] = str(reason)[:2000]
    if cex is not None:
        d["cex"] = cex
    if model is not None:
        d["model"] = model
    if sample is not None:
        d["sample"] = sample
    if expect is not None:
        d["expect"] = expect
    if evaluations is not None:
        d["evaluations"] = int(evaluations)
    if nontrivial is not None:
        d["nontrivial"] = int(nontrivial)
    if concolic:
        d["concolic"] = int(concolic)
    return d


def discharge(id: str, hyps: Sequence, goal, *, backends=("z3", "gb"), kind="proof",
              engine="symrun", timeout_ms=None, cex_builder: Optional[Callable] = None,
              sample=None, expect=None, full_hyps: Optional[Sequence] = None, seed=0,
              nice: Optional[Sequence] = None):
    """Decide /\\hyps => goal.  If ``hyps`` is a selected subset of ``full_hyps``
    (proof scripting), a 'sat' answer is re-checked against the full set so that
    only genuine counter-models are reported."""
    v = B.prove(hyps, goal, backends=backends, timeout_ms=timeout_ms, seed=seed)
    if v.status == "refuted" and full_hyps is not None and len(full_hyps) != len(hyps):
        v2 = B.prove(full_hyps, goal, backends=tuple(b for b in backends if b != "gb") or ("z3",),
                     timeout_ms=timeout_ms, seed=seed)
        v2.secs += v.secs
        v = v2
    cex = None
    if v.status == "refuted" and nice and v.model is not None:
        # prefer a counter-model on a dyadic grid: it survives the conversion to floats exactly
        nm = nice_model(full_hyps if full_hyps is not None else hyps, goal, nice)
        if nm is not None:
            v.model = nm
    if v.status == "refuted" and cex_builder is not None and v.model is not None:
        try:
            cex = cex_builder(v.model)
        except Exception as e:  # pragma: no cover
            cex = None
            v.reason = f"{v.reason} (cex builder failed: {e})"
    reason = v.reason
    if v.status == "refuted" and not reason:
        reason = f"{v.backend}: sat -- counter-model found for goal {short(goal, 300)}"
    return ob(id, v.status, kind=kind, engine=engine, backend=v.backend, secs=v.secs, reason=reason,
              cex=cex, model=v.model if v.status == "refuted" else None,
              sample=sample if sample is not None else {"goal": short(goal), "n_hyps": len(hyps)},
              expect=expect)


def short(e, n=200):
    """bounded textual form of a term (the Python pretty printer of z3 is very slow on large terms)"""
    try:
        return e.sexpr()[:n]
    except Exception:
        return str(e)[:n]


def nice_model(hyps, goal, nice_vars, timeout_ms=4000):
    for denom, bound in ((1, 3), (2, 8), (4, 40)):
        s = z3.Solver()
        s.set("timeout", timeout_ms)
        for h in hyps:
            s.add(h)
        s.add(z3.Not(goal))
        for i, x in enumerate(nice_vars):
            k = z3.Int(f"nice!{i}")
            s.add(x * denom == z3.ToReal(k), k >= -bound, k <= bound)
        try:
            if s.check() == z3.sat:
                return B.model_to_dict(s.model())
        except z3.Z3Exception:
            pass
    return None


def _as_ob(id, v, engine, sample=None):
    return ob(id, v.status, kind="proof", engine=engine, backend=v.backend, secs=v.secs, reason=v.reason, sample=sample)


class Proof:
    """A proof script: every step is itself a discharged obligation; later steps
    may use earlier ones; nothing is assumed."""

    def __init__(self, prefix: str, hyps: Sequence, cex_builder=None, engine="symrun", seed=0,
                 timeout_ms=None, nice=None):
        self.nice = nice
        self.generic = {}
        self.prefix = prefix
        self.hyps = list(hyps)
        self.facts: Dict[str, object] = {}
        self.obs: List[dict] = []
        self.cex_builder = cex_builder
        self.engine = engine
        self.seed = seed
        self.timeout_ms = timeout_ms

    def all_hyps(self):
        return self.hyps + list(self.facts.values())

    def have(self, name: str, goal, by: Optional[Sequence] = None, use: Sequence[str] = (),
             backends=("z3", "gb"), timeout_ms=None, sample=None, optional=False) -> bool:
        """by: explicit hypothesis terms (subset of self.hyps); use: names of
        earlier facts.  by=None means every hypothesis and every earlier fact."""
        full = self.all_hyps()
        if by is None and not use:
            hy = full
        else:
            hy = list(by or []) + [self.facts[u] for u in use if u in self.facts]
        o = discharge(f"{self.prefix}/{name}", hy, goal, backends=backends, engine=self.engine,
                      timeout_ms=timeout_ms or self.timeout_ms, cex_builder=self.cex_builder,
                      full_hyps=full, seed=self.seed, sample=sample, nice=self.nice)
        if os.environ.get("VERIF_DEBUG"):
            print(f"   have {name}: {o['status']} {o['backend']} {o['secs']:.2f}s {str(o.get('reason',''))[:100]}", flush=True)
        if o["status"] == "discharged":
            self.obs.append(o)
            self.facts[name] = goal
            return True
        if not optional:
            self.obs.append(o)
        return False


def _proof_have_cert(self, name, goal, combos, optional=False):
    """Step justified by an explicit linear-combination certificate over hypotheses/facts."""
    v = B.cert_check(self.all_hyps(), goal, combos)
    o = _as_ob(f"{self.prefix}/{name}", v, self.engine, sample={"goal": short(goal), "certificate_terms": len(combos)})
    if os.environ.get("VERIF_DEBUG"):
        print(f"   have {name}: {o['status']} cert {o['secs']:.2f}s {str(o.get('reason',''))[:100]}", flush=True)
    if o["status"] == "discharged":
        self.obs.append(o)
        self.facts[name] = goal
        return True
    if not optional:
        self.obs.append(o)
    return False


Proof.have_cert = _proof_have_cert


def _proof_have_instance(self, name, lemma_name, pairs):
    """Universal instantiation of an earlier fact that was proved over generic symbols which occur in NO hypothesis
    (checked): substituting terms for those symbols yields a consequence.  pairs: [(generic symbol, term), ...]"""
    t0 = time.time()
    lem = self.facts.get(lemma_name)
    status, reason = "discharged", ""
    if lem is None:
        status, reason = "undecided", f"lemma {lemma_name} is not an established fact"
    else:
        gen = {str(a) for a, _ in pairs}
        for h in self.hyps:
            if gen & set(free_consts(h)):
                status, reason = "undecided", "a generic symbol of the lemma occurs in a hypothesis: instantiation would be unsound"
                break
        if status == "discharged" and not self.generic.get(lemma_name):
            status, reason = "undecided", "lemma was not registered as generic (proved from hypotheses free of its symbols)"
    inst = z3.substitute(lem, *pairs) if lem is not None else None
    o = ob(f"{self.prefix}/{name}", status, kind="proof", engine=self.engine, backend="instantiation", secs=time.time() - t0, reason=reason,
           sample={"lemma": lemma_name, "substituted": len(pairs)})
    self.obs.append(o)
    if status == "discharged":
        self.facts[name] = inst
        return True
    return False


def _proof_have_generic(self, name, goal, by, backends=("gb", "z3"), timeout_ms=None):
    """a lemma over generic symbols, proved from `by` only (hypotheses that do not mention the path): may be instantiated later"""
    ok = self.have(name, goal, by=list(by) + [z3.BoolVal(True)], backends=backends, timeout_ms=timeout_ms)
    if ok:
        self.generic[name] = True
    return ok


Proof.have_instance = _proof_have_instance
Proof.have_generic = _proof_have_generic


# ---------------------------------------------------------------------------
# concolic cross-check of assumption A2 (numpy object-dtype transparency)


def get_model(hyps: Sequence, extra: Sequence = (), timeout_ms=5000):
    s = z3.Solver()
    s.set("timeout", timeout_ms)
    for h in hyps:
        s.add(h)
    for e in extra:
        s.add(e)
    if s.check() == z3.sat:
        return s.model()
    return None


def mval(m, term) -> float:
    v = m.eval(term, model_completion=True)
    if z3.is_algebraic_value(v):
        v = v.approx(40)
    if z3.is_rational_value(v):
        return v.numerator_as_long() / v.denominator_as_long()
    if z3.is_int_value(v):
        return float(v.as_long())
    return float(str(v).rstrip("?"))


def must_fail(id: str, hyps: Sequence, wrong_goal, timeout_ms=5000, engine="symrun", hint: Sequence = ()):
    """Guard against vacuity: a deliberately wrong clause has to be refutable
    under the same hypotheses (expected status: 'refuted')."""
    t0 = time.time()
    v = B.z3_check(list(hyps) + list(hint), wrong_goal, timeout_ms)
    status, backend = v.status, v.backend
    if status == "undecided":
        m = get_model(hyps, extra=hint, timeout_ms=timeout_ms)
        if m is not None:
            try:
                val = m.eval(wrong_goal, model_completion=True)
                if z3.is_false(z3.simplify(val)):
                    status, backend = "refuted", "z3-model-eval"
            except z3.Z3Exception:
                pass
    return ob(id, status, kind="guard", engine=engine, backend=backend, secs=time.time() - t0,
              expect="refuted", reason=v.reason)


def witness_guard(id: str, hyps: Sequence, consts: dict, funs: Sequence = (), timeout_ms=10000, engine="pyvc"):
    """Guard against vacuity for quantified hypotheses (where asking the solver for a model times out): the sidecar supplies an explicit
    witness -- a value for every constant (``consts``: z3 const -> term) and a definition for every function (``funs``: (decl, body over
    z3.Var(i))) -- and every hypothesis is PROVED valid under it.  All valid => the hypotheses are satisfiable => status 'refuted'
    (the expected status of a guard: the wrong goal False is not a consequence)."""
    t0 = time.time()
    bad = None
    sub_c = [(k, v) for k, v in consts.items()]
    for i, h in enumerate(hyps):
        g = z3.substitute(h, *sub_c) if sub_c else h
        g = z3.substitute_funs(g, *funs) if funs else g
        left = [n for n in free_consts(g)]
        if left:
            bad = f"hypothesis {i} keeps free symbols {left[:4]} under the witness"
            break
        sl = z3.Solver()
        sl.set("timeout", timeout_ms)
        sl.add(z3.Not(g))
        r = sl.check()
        if r != z3.unsat:
            bad = f"hypothesis {i} is not valid under the witness ({r}): {short(h, 160)}"
            break
    return ob(id, "refuted" if bad is None else "undecided", kind="guard", engine=engine, backend="z3-witness", secs=time.time() - t0,
              expect="refuted", reason=bad or f"{len(list(hyps))} hypotheses valid under an explicit witness")


def free_consts(e):
    seen, out, st = set(), {}, [e]
    while st:
        t = st.pop()
        if t.get_id() in seen:
            continue
        seen.add(t.get_id())
        if z3.is_const(t) and t.decl().kind() == z3.Z3_OP_UNINTERPRETED:
            out[t.decl().name()] = t
        st.extend(t.children())
    return out


def hyps_over(hyps: Sequence, allowed_fresh, fresh_marker="!"):
    """Select the hypotheses whose run-introduced symbols (names containing '!')
    all belong to ``allowed_fresh`` -- the hypotheses a lemma about those symbols
    can possibly need.  Dropping hypotheses is always sound."""
    allowed = {str(a) for a in allowed_fresh}
    out = []
    for h in hyps:
        names = [n for n in free_consts(h) if fresh_marker in n]
        if all(n in allowed for n in names):
            out.append(h)
    return out
