"""Fork-per-task process pool with a hard wall-clock kill per task.

The master never creates z3 terms; each task runs in a freshly forked child
(cheap: the modules are already imported) and sends its result back through a
pipe as a pickled plain-Python object.  A task that exceeds its wall limit is
killed and reported as ('killed', None).
"""
from __future__ import annotations

import multiprocessing as mp
import os
import pickle
import time
import traceback
from typing import Any, Callable, List, Sequence, Tuple

_FORK = mp.get_context("fork")


def ncpu() -> int:
    try:
        n = len(os.sched_getaffinity(0))
    except AttributeError:
        n = os.cpu_count() or 4
    return max(1, min(n, int(os.environ.get("VERIF_JOBS", n))))


def _child(conn, fn, args):
    try:
        res = ("ok", fn(*args))
    except BaseException as e:  # noqa
        res = ("error", f"{type(e).__name__}: {e}\n{traceback.format_exc()[-3000:]}")
    try:
        conn.send_bytes(pickle.dumps(res))
    except Exception as e:  # result not picklable
        conn.send_bytes(pickle.dumps(("error", f"unpicklable result: {e}")))
    finally:
        conn.close()
        os._exit(0)


def run_tasks(tasks: Sequence[Tuple[str, Callable, tuple, float]], jobs: int = 0,
              progress: Callable[[str, str], None] = None) -> List[Tuple[str, str, Any, float]]:
    """tasks: (name, fn, args, wall_limit_s).  Returns (name, state, payload, secs)
    in the order of ``tasks``; state in {'ok','error','killed'}."""
    jobs = jobs or ncpu()
    pending = list(enumerate(tasks))[::-1]
    running = {}   # idx -> (proc, conn, t0, limit, name)
    results = {}
    while pending or running:
        while pending and len(running) < jobs:
            idx, (name, fn, args, limit) = pending.pop()
            parent, child = _FORK.Pipe(duplex=False)
            p = _FORK.Process(target=_child, args=(child, fn, args), daemon=True)
            p.start()
            child.close()
            running[idx] = (p, parent, time.time(), limit, name)
        done = []
        for idx, (p, conn, t0, limit, name) in running.items():
            if conn.poll(0):
                try:
                    state, payload = pickle.loads(conn.recv_bytes())
                except (EOFError, OSError, pickle.UnpicklingError) as e:
                    state, payload = "error", f"lost result: {e}"
                results[idx] = (name, state, payload, time.time() - t0)
                conn.close()
                p.join(5)
                if p.is_alive():
                    p.kill()
                done.append(idx)
            elif not p.is_alive():
                # died without a result
                if conn.poll(0.05):
                    continue
                results[idx] = (name, "error", f"worker exited with code {p.exitcode}", time.time() - t0)
                conn.close()
                done.append(idx)
            elif time.time() - t0 > limit:
                p.kill()
                p.join(5)
                conn.close()
                results[idx] = (name, "killed", f"wall limit {limit}s", time.time() - t0)
                done.append(idx)
        for idx in done:
            if progress:
                progress(results[idx][0], results[idx][1])
            del running[idx]
        if not done:
            time.sleep(0.01)
    return [results[i] for i in range(len(tasks))]
