"""Symbolic sequences / lists / dicts for pyvc (z3 arrays + length / domain).

SymSeq    immutable input sequence of symbolic length: item(i) supplied by the sidecar
SymEnum   enumerate(SymSeq)
SymList   mutable list built by the code: length (Int) + one z3 array per component of its elements
SymDict   mutable dict Int -> Int: domain array (Int -> Bool) + value array (Int -> Int)
Mutation happens in place on the proxy held by the state; pyvc copies proxies when it forks a state.
"""
from __future__ import annotations

from typing import Callable, List, Sequence

import z3

from . import symrun as S
from .pyvc import PyvcUnsupported


class SymSeq:
    def __init__(self, name, length, item: Callable):
        self.name, self.length, self.item = name, length, item

    def pyvc_copy(self):
        return self

    def pyvc_iter(self):
        return self.length, self.item

    def pyvc_len(self):
        return S.SymReal(self.length)

    def pyvc_fresh_like(self, interp, name):
        return self          # inputs are never reassigned by the functions under contract

    def pyvc_getitem(self, i, interp, st):
        it = S._num(i) if not isinstance(i, int) else z3.IntVal(i)
        interp.oblige(st, f"safety.index-in-range[{self.name}]", z3.And(it >= 0, it < self.length))
        return self.item(it)


class SymEnum:
    def __init__(self, seq: SymSeq):
        self.seq = seq

    def pyvc_copy(self):
        return self

    def pyvc_iter(self):
        length, item = self.seq.pyvc_iter()
        return length, (lambda k: (S.SymReal(k), item(k)))


def sym_enumerate(x, *a):
    if isinstance(x, SymSeq) and not a:
        return SymEnum(x)
    return enumerate(x, *a)


sym_enumerate.pyvc_pure = True


class SymList:
    """elements are tuples of z3 terms of the given sorts (a scalar element is a 1-tuple)"""

    def __init__(self, name, sorts: Sequence, wrap: Callable, unwrap: Callable, length=None, arrays=None):
        self.name, self.sorts, self.wrap, self.unwrap = name, list(sorts), wrap, unwrap
        self.length = z3.IntVal(0) if length is None else length
        if arrays is None:
            arrays = [z3.K(z3.IntSort(), _default(s)) for s in self.sorts]
        self.arrays = list(arrays)

    def pyvc_copy(self):
        return SymList(self.name, self.sorts, self.wrap, self.unwrap, self.length, self.arrays)

    def pyvc_fresh_like(self, interp, name):
        interp.n_fresh += 1
        n = interp.n_fresh
        ln = z3.Int(f"{name}_len!{n}")
        arrs = [z3.Array(f"{name}_arr{i}!{n}", z3.IntSort(), s) for i, s in enumerate(self.sorts)]
        return SymList(self.name, self.sorts, self.wrap, self.unwrap, ln, arrs)

    def append(self, x):
        comps = self.unwrap(x)
        if len(comps) != len(self.sorts):
            raise PyvcUnsupported(f"append of a value with {len(comps)} components to {self.name}")
        self.arrays = [z3.Store(a, self.length, c) for a, c in zip(self.arrays, comps)]
        self.length = self.length + 1

    append.pyvc_pure = True

    def pyvc_len(self):
        return S.SymReal(self.length)

    def pyvc_truth(self):
        return S.SymBool(self.length != 0)

    def at(self, i):
        return [z3.Select(a, i) for a in self.arrays]

    def pyvc_getitem(self, i, interp, st):
        it = S._num(i)
        interp.oblige(st, f"safety.index-in-range[{self.name}]", z3.And(it >= 0, it < self.length))
        return self.wrap(self.at(it))


class SymDict:
    def __init__(self, name, dom=None, val=None):
        self.name = name
        self.dom = z3.K(z3.IntSort(), z3.BoolVal(False)) if dom is None else dom
        self.val = z3.K(z3.IntSort(), z3.IntVal(0)) if val is None else val

    def pyvc_copy(self):
        return SymDict(self.name, self.dom, self.val)

    def pyvc_fresh_like(self, interp, name):
        interp.n_fresh += 1
        n = interp.n_fresh
        return SymDict(self.name, z3.Array(f"{name}_dom!{n}", z3.IntSort(), z3.BoolSort()), z3.Array(f"{name}_val!{n}", z3.IntSort(), z3.IntSort()))

    @staticmethod
    def _key(k):
        t = S._num(k) if not isinstance(k, int) else z3.IntVal(k)
        if z3.is_real(t):
            t = z3.ToInt(t) if not (z3.is_app(t) and t.decl().kind() == z3.Z3_OP_TO_REAL) else t.arg(0)
        return t

    def pyvc_setitem(self, k, v, interp, st):
        kt = self._key(k)
        vt = self._key(v)
        self.dom = z3.Store(self.dom, kt, z3.BoolVal(True))
        self.val = z3.Store(self.val, kt, vt)

    def pyvc_contains(self, k):
        return S.SymBool(z3.Select(self.dom, self._key(k)))

    def pyvc_getitem(self, k, interp, st):
        kt = self._key(k)
        interp.oblige(st, f"safety.key-present[{self.name}]", z3.Select(self.dom, kt))
        return S.SymReal(z3.Select(self.val, kt))


def _default(sort):
    if sort == z3.IntSort():
        return z3.IntVal(0)
    if sort == z3.RealSort():
        return z3.RealVal(0)
    if sort == z3.BoolSort():
        return z3.BoolVal(False)
    return z3.Const(f"default_{sort.name()}", sort)


def sym_range(*a):
    """range() with a symbolic bound -> SymSeq of the integers 0..n-1"""
    if len(a) == 1 and isinstance(a[0], S.SymReal):
        n = SymDict._key(a[0])
        return SymSeq("range", n, lambda k: S.SymReal(k))
    return range(*a)


sym_range.pyvc_pure = True
