"""Back-end portfolio: z3 (Python API), gb (sympy Groebner ideal membership),
cvc5 (CLI), old z3 4.8.12 (CLI, independent re-check).

prove(hyps, goal) decides  AND(hyps) ==> goal.
Verdicts: 'discharged' | 'refuted' (with model) | 'undecided' (with reason).
"""
from __future__ import annotations

import os
import subprocess
import tempfile
import time
from fractions import Fraction
from typing import Dict, List, Optional, Sequence

import z3

Z3_TIMEOUT_MS = int(os.environ.get("VERIF_Z3_TIMEOUT_MS", "20000"))


class Verdict:
    __slots__ = ("status", "backend", "secs", "model", "reason")

    def __init__(self, status, backend, secs, model=None, reason=""):
        self.status = status
        self.backend = backend
        self.secs = secs
        self.model = model
        self.reason = reason

    def as_dict(self):
        d = {"status": self.status, "backend": self.backend, "secs": round(self.secs, 4)}
        if self.model is not None:
            d["model"] = self.model
        if self.reason:
            d["reason"] = self.reason
        return d


# --------------------------------------------------------------------------
# z3


def model_to_dict(m: z3.ModelRef) -> Dict[str, str]:
    out = {}
    for d in m.decls():
        if d.arity() != 0:
            try:
                out[d.name()] = str(m[d])
            except Exception:
                pass
            continue
        v = m[d]
        try:
            if z3.is_algebraic_value(v):
                out[d.name()] = v.approx(30).as_decimal(30).rstrip("?")
            else:
                out[d.name()] = str(v)
        except Exception:
            out[d.name()] = str(v)
    return out


def model_value(s: str) -> float:
    """Parse a value string written by model_to_dict."""
    s = s.strip().rstrip("?")
    if "/" in s:
        return float(Fraction(s.replace(" ", "")))
    return float(s)


def _has_quantifier(terms) -> bool:
    seen, stack = set(), list(terms)
    while stack:
        t = stack.pop()
        if t.get_id() in seen:
            continue
        seen.add(t.get_id())
        if z3.is_quantifier(t):
            return True
        stack.extend(t.children())
    return False


def z3_check(hyps: Sequence, goal, timeout_ms=None, tactic: Optional[str] = None, seed=0):
    t0 = time.time()
    timeout_ms = timeout_ms or Z3_TIMEOUT_MS
    if not tactic and _has_quantifier(list(hyps) + [goal]):
        # quantified VCs: a pre-pass with E-matching only (model-based instantiation off).  'unsat' is sound whatever the instantiation
        # strategy; anything else falls through to the default configuration below, which is the one that can produce counter-models.
        conj, stack = [], [goal]
        while stack:
            g = stack.pop()
            if z3.is_and(g):
                stack.extend(g.children())
            else:
                conj.append(g)
        ok = True
        budget = time.time() + max(timeout_ms, 20000) / 1000.0
        for g in conj:          # each conjunct of the goal on its own: the negated conjunction is a disjunction E-matching handles badly
            proved = False
            for attempt in range(2):        # E-matching is sensitive to the search order: a second seed before giving up
                s = z3.Solver()
                s.set("timeout", int(max(3000, min(10000, (budget - time.time()) * 1000))))   # floor: a loaded machine must not flip a millisecond query
                s.set("auto_config", False)
                s.set("smt.mbqi", False)
                s.set("random_seed", int(seed) + 7919 * attempt)
                for h in hyps:
                    s.add(h)
                s.add(z3.Not(g))
                try:
                    if s.check() == z3.unsat:
                        proved = True
                        break
                except z3.Z3Exception:
                    break
            if not proved:
                # the same conjunct once more with the default configuration (model-based instantiation on): some conjuncts need it
                s = z3.Solver()
                s.set("timeout", int(max(3000, min(10000, (budget - time.time()) * 1000))))
                s.set("random_seed", int(seed))
                for h in hyps:
                    s.add(h)
                s.add(z3.Not(g))
                try:
                    proved = s.check() == z3.unsat
                except z3.Z3Exception:
                    proved = False
            if not proved:
                ok = False
                break
        if ok:
            return Verdict("discharged", "z3:per-conjunct", time.time() - t0)
    if tactic:
        s = z3.Then(z3.Tactic("simplify"), z3.Tactic("solve-eqs"), z3.Tactic(tactic)).solver() \
            if tactic != "default" else z3.Solver()
    else:
        s = z3.Solver()
    s.set("timeout", int(timeout_ms))
    if not tactic:
        s.set("random_seed", int(seed))
    for h in hyps:
        s.add(h)
    s.add(z3.Not(goal))
    try:
        r = s.check()
    except z3.Z3Exception as e:
        return Verdict("undecided", "z3", time.time() - t0, reason=f"z3 exception {e}")
    dt = time.time() - t0
    name = "z3" if not tactic else f"z3:{tactic}"
    if r == z3.unsat:
        return Verdict("discharged", name, dt)
    if r == z3.sat:
        return Verdict("refuted", name, dt, model=model_to_dict(s.model()))
    return Verdict("undecided", name, dt, reason=f"unknown ({s.reason_unknown()})")


# --------------------------------------------------------------------------
# gb: polynomial ideal membership

import contextlib
import signal


class _GbTimeout(Exception):
    pass


@contextlib.contextmanager
def _time_limit(secs):
    def handler(signum, frame):
        raise _GbTimeout()
    try:
        old = signal.signal(signal.SIGALRM, handler)
    except ValueError:      # not in the main thread: no limit available
        yield
        return
    signal.setitimer(signal.ITIMER_REAL, secs)
    try:
        yield
    finally:
        signal.setitimer(signal.ITIMER_REAL, 0)
        signal.signal(signal.SIGALRM, old)


_GB_CACHE = {}


def _z3_to_sympy(e, syms: Dict[str, object]):
    import sympy as sp

    def atom(term):
        key = term.sexpr()
        if key not in syms:
            syms[key] = sp.Symbol("v%d" % len(syms))
        return syms[key]

    def rec(t):
        if z3.is_rational_value(t):
            return sp.Rational(t.numerator_as_long(), t.denominator_as_long())
        if z3.is_int_value(t):
            return sp.Integer(t.as_long())
        k = t.decl().kind()
        ch = t.children()
        if k == z3.Z3_OP_ADD:
            return sum((rec(c) for c in ch), sp.Integer(0))
        if k == z3.Z3_OP_MUL:
            r = sp.Integer(1)
            for c in ch:
                r = r * rec(c)
            return r
        if k == z3.Z3_OP_SUB:
            r = rec(ch[0])
            for c in ch[1:]:
                r = r - rec(c)
            return r
        if k == z3.Z3_OP_UMINUS:
            return -rec(ch[0])
        if k == z3.Z3_OP_POWER and z3.is_int_value(z3.simplify(ch[1])) or \
           (k == z3.Z3_OP_POWER and z3.is_rational_value(ch[1]) and ch[1].denominator_as_long() == 1):
            n = ch[1].numerator_as_long() if z3.is_rational_value(ch[1]) else ch[1].as_long()
            if n >= 0:
                return rec(ch[0]) ** n
        if k == z3.Z3_OP_DIV and z3.is_rational_value(ch[1]) and ch[1].numerator_as_long() != 0:
            return rec(ch[0]) / sp.Rational(ch[1].numerator_as_long(), ch[1].denominator_as_long())
        if k == z3.Z3_OP_TO_REAL:
            return rec(ch[0]) if not z3.is_const(ch[0]) or z3.is_int_value(ch[0]) else atom(ch[0])
        if k == z3.Z3_OP_UNINTERPRETED:
            return atom(t)
        raise ValueError(f"gb: non-polynomial term {t.decl().name()}")

    return rec(e)


def _split_conj(g):
    if z3.is_and(g):
        out = []
        for c in g.children():
            out += _split_conj(c)
        return out
    return [g]


def gb_check(hyps: Sequence, goal, order="grevlex", max_secs=None):
    """Sound: if every equality of the goal lies in the ideal generated by the
    hypotheses' polynomial equalities (disequalities e != 0 by Rabinowitsch:
    t*e - 1), the implication holds over any commutative ring, hence over R.
    Inequality hypotheses are dropped (weakening the hypothesis set is sound)."""
    t0 = time.time()
    max_secs = max_secs or float(os.environ.get("VERIF_GB_SECS", "40"))
    key = tuple(h.get_id() for h in hyps) + (order,)
    if _GB_CACHE.get(key, (None,))[0] == "timeout":
        return Verdict("undecided", "gb", time.time() - t0, reason="gb wall limit (cached)")
    try:
        with _time_limit(max_secs):
            return _gb_check(hyps, goal, order, t0)
    except _GbTimeout:
        _GB_CACHE[key] = ("timeout", list(hyps))
        return Verdict("undecided", "gb", time.time() - t0, reason=f"gb wall limit {max_secs}s")
    except RecursionError:
        return Verdict("undecided", "gb", time.time() - t0, reason="gb recursion limit")


def _gb_prepare(hyps, order):
    """hypotheses -> (syms, substitutions, Groebner basis or None)"""
    import sympy as sp
    key = tuple(h.get_id() for h in hyps) + (order,)
    hit = _GB_CACHE.get(key)
    if hit is not None and hit[0] != "timeout":
        return hit[1:]
    syms: Dict[str, object] = {}
    gens_polys = []
    for h in hyps:
        for a in _split_conj(h):
            if z3.is_eq(a) and z3.is_arith(a.arg(0)):
                try:
                    gens_polys.append(sp.expand(_z3_to_sympy(a.arg(0), syms) - _z3_to_sympy(a.arg(1), syms)))
                except ValueError:
                    continue        # non-polynomial hypothesis: dropped (sound)
            else:
                ne = None
                if z3.is_distinct(a) and len(a.children()) == 2 and z3.is_arith(a.arg(0)):
                    ne = (a.arg(0), a.arg(1))
                elif z3.is_not(a) and z3.is_eq(a.arg(0)) and z3.is_arith(a.arg(0).arg(0)):
                    ne = (a.arg(0).arg(0), a.arg(0).arg(1))
                if ne is not None:
                    try:
                        e = _z3_to_sympy(ne[0], syms) - _z3_to_sympy(ne[1], syms)
                    except ValueError:
                        continue
                    tt = sp.Symbol("rab%d" % len(syms))
                    syms["rab%d" % len(syms)] = tt
                    gens_polys.append(sp.expand(tt * e - 1))
    gens_polys = [p for p in gens_polys if p != 0]
    subs = []
    changed = True
    rounds = 0
    while changed and rounds < 300:
        changed = False
        rounds += 1
        for i, p in enumerate(gens_polys):
            for v in sorted(p.free_symbols, key=lambda s_: s_.name):
                P = sp.Poly(p, v)
                if P.degree() == 1:
                    a, b = P.all_coeffs()
                    if a.is_number and a != 0:
                        sol = sp.expand(-b / a)
                        if sp.count_ops(sol) > 60:
                            continue
                        rest = gens_polys[:i] + gens_polys[i + 1:]
                        gens_polys = [q for q in (sp.expand(q.subs(v, sol)) for q in rest) if q != 0]
                        subs.append((v, sol))
                        changed = True
                        break
            if changed:
                break
    G = None
    if gens_polys:
        allsyms = set()
        for p in gens_polys:
            allsyms |= p.free_symbols
        gens = sorted(allsyms, key=lambda s_: (not s_.name.startswith("rab"), s_.name))
        G = sp.groebner(gens_polys, *gens, order=order)
    _GB_CACHE[key] = (list(hyps), syms, subs, G)     # keep the z3 terms alive with the ids
    return syms, subs, G


def _gb_check(hyps, goal, order, t0):
    import sympy as sp
    goals_z3 = []
    for a in _split_conj(goal):
        if not (z3.is_eq(a) and z3.is_arith(a.arg(0))):
            return Verdict("undecided", "gb", time.time() - t0, reason="goal is not a conjunction of polynomial equalities")
        goals_z3.append(a)
    syms, subs, G = _gb_prepare(list(hyps), order)
    try:
        goals = [sp.expand(_z3_to_sympy(a.arg(0), syms) - _z3_to_sympy(a.arg(1), syms)) for a in goals_z3]
    except ValueError as e:
        return Verdict("undecided", "gb", time.time() - t0, reason=str(e))
    for v, sol in subs:
        goals = [sp.expand(g.subs(v, sol)) if g.has(v) else g for g in goals]
    goals = [g for g in goals if g != 0]
    if not goals:
        return Verdict("discharged", "gb", time.time() - t0)
    if G is None:
        return Verdict("undecided", "gb", time.time() - t0, reason="no polynomial hypotheses; goal not identically zero")
    gens = set(G.gens)
    for g in goals:
        extra = sorted(g.free_symbols - gens, key=lambda s_: s_.name)
        if extra:
            # parameters that occur only in the goal: a Groebner basis stays one when unused variables are
            # added to the ring, so reduce in the larger ring
            _, r = sp.reduced(g, list(G.exprs), *(list(G.gens) + extra), order=order)
        else:
            _, r = G.reduce(g)
        if r != 0:
            return Verdict("undecided", "gb", time.time() - t0, reason="goal not in the ideal (remainder non-zero)")
    return Verdict("discharged", "gb", time.time() - t0)


def cert_check(hyps: Sequence, goal, combos) -> Verdict:
    """Explicit ideal-membership certificate: goal is lhs == rhs, combos is a list
    of (multiplier term, hypothesis) with each hypothesis an equality that occurs
    (structurally) in ``hyps``.  Checks  (lhs - rhs) - sum m_i (l_i - r_i) == 0  as a
    polynomial identity.  Sound over any commutative ring."""
    import sympy as sp
    t0 = time.time()
    syms: Dict[str, object] = {}
    try:
        if not z3.is_eq(goal):
            return Verdict("undecided", "cert", 0.0, reason="goal is not an equality")
        acc = _z3_to_sympy(goal.arg(0), syms) - _z3_to_sympy(goal.arg(1), syms)
        for mult, h in combos:
            if not any(h.eq(x) for x in hyps):
                return Verdict("undecided", "cert", time.time() - t0, reason="certificate uses a formula that is not a hypothesis")
            acc = acc - _z3_to_sympy(mult, syms) * (_z3_to_sympy(h.arg(0), syms) - _z3_to_sympy(h.arg(1), syms))
        if sp.expand(acc) == 0:
            return Verdict("discharged", "cert", time.time() - t0)
        return Verdict("undecided", "cert", time.time() - t0, reason="certificate does not check (non-zero remainder)")
    except ValueError as e:
        return Verdict("undecided", "cert", time.time() - t0, reason=str(e))


# --------------------------------------------------------------------------
# external solvers on an SMT-LIB dump


def to_smt2(hyps: Sequence, goal, logic: Optional[str] = None) -> str:
    s = z3.Solver()
    for h in hyps:
        s.add(h)
    s.add(z3.Not(goal))
    txt = s.to_smt2()
    if logic:
        txt = f"(set-logic {logic})\n" + txt
    return txt


def cli_check(hyps, goal, which="cvc5", tlimit_s=20):
    t0 = time.time()
    txt = to_smt2(hyps, goal)
    with tempfile.NamedTemporaryFile("w", suffix=".smt2", delete=False) as f:
        f.write(txt)
        path = f.name
    try:
        if which == "cvc5":
            cmd = ["/usr/bin/cvc5", f"--tlimit={int(tlimit_s * 1000)}", "--nl-ext-tplanes", path]
            txt_logic = "(set-logic ALL)\n"
            with open(path, "w") as f:
                f.write(txt_logic + txt)
        else:
            cmd = ["/usr/bin/z3", f"-T:{int(tlimit_s)}", path]
        try:
            p = subprocess.run(cmd, capture_output=True, text=True, timeout=tlimit_s + 5)
            out = (p.stdout or "").strip().splitlines()
            first = out[0].strip() if out else ""
        except subprocess.TimeoutExpired:
            first = "timeout"
    finally:
        try:
            os.unlink(path)
        except OSError:
            pass
    dt = time.time() - t0
    if first == "unsat":
        return Verdict("discharged", which, dt)
    if first == "sat":
        return Verdict("refuted", which, dt, model=None, reason="sat (no model extracted)")
    return Verdict("undecided", which, dt, reason=first or "no output")


# --------------------------------------------------------------------------
# portfolio


def prove(hyps: Sequence, goal, backends=("z3", "gb", "cvc5"), timeout_ms=None, seed=0) -> Verdict:
    last = None
    total = 0.0
    for b in backends:
        if b == "z3":
            v = z3_check(hyps, goal, timeout_ms, seed=seed)
        elif b == "nlsat":
            v = z3_check(hyps, goal, timeout_ms, tactic="qfnra-nlsat", seed=seed)
        elif b == "gb":
            v = gb_check(hyps, goal)
        elif b == "cvc5":
            v = cli_check(hyps, goal, "cvc5", (timeout_ms or Z3_TIMEOUT_MS) / 1000.0)
        elif b == "z3old":
            v = cli_check(hyps, goal, "z3old", (timeout_ms or Z3_TIMEOUT_MS) / 1000.0)
        else:
            raise ValueError(b)
        total += v.secs
        if v.status in ("discharged",):
            v.secs = total
            return v
        if v.status == "refuted" and v.model is not None:
            v.secs = total
            return v
        last = v if last is None or v.status != "undecided" else Verdict(
            "undecided", f"{last.backend}+{v.backend}", total, reason=f"{last.reason}; {v.reason}")
    last.secs = total
    if last.status == "refuted" and last.model is None:
        return Verdict("undecided", last.backend, total, reason="sat without a model")
    return last
